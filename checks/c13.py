"""C13 — signals (src/unix/signal.c, core.c:330-342).
Proof: UvModel.Props.C13 over UvModel.Signal.  Tie B: the real library with several loops run from
one thread in a scripted order, signals raised synchronously, sigaction queried after every op;
every line compared with `uvdriver signal`.  Monitors evaluate the property text on the
implementation's log with their own bookkeeping (no knowledge of the tree, the pipe or the model)."""
from vlib import *
import time

MANIFEST = {
 "text": "Lean 4 theorems over an executable model of signal.c (ordered tree of started handles, kernel disposition with "
         "SA_RESETHAND, per-loop pipe FIFO, caught/dispatched, deferred close): fan-out of a delivery to every watcher, "
         "one-shot exactly once, quiet after stop, close_cb only after caught == dispatched, disposition rule, fresh one-shot "
         "bit after restart; `restart_is_fresh` in the strong sense is proved FALSE (three witnesses, known findings) with a "
         "partial version.  The model is tied to the working tree by running it and the real library on the same scripted "
         "programs (multi-loop, scripted callbacks, raise between and inside loop iterations) and diffing every line, plus "
         "monitors that evaluate the property text directly on the implementation.",
 "note": "Trusted: Lean kernel (propext, Classical.choice, Quot.sound), RB tree = sorted list abstraction (validated by "
         "callback order and caught counters), kernel signal semantics as modelled (synchronous raise, SA_RESETHAND resets "
         "before the handler runs), clang/ASan. Loops are run from one thread (deterministic); real multi-thread scheduling, "
         "signal masking, pipe overflow (excluded by the property) and fork are not modelled: the block-signals/take-lock "
         "protocol of start/stop/close is exercised by monitors only (a watched signal raised at every system-call boundary "
         "inside the call, helper-process watchdog).",
 "design": "DESIGN.md §3 C13",
 "technique": "Lean 4 proof over executable model + correspondence (whole-library simulator, sigaction observation) + monitors",
}

SIGS = [10, 12, 1, 28]
PIPE_CAP = 4096          # 64 KiB self-pipe / 16-byte messages (the harness checks the pipe size)
K_L10 = "stale-signal-msg-after-restart-same-signum"
K_B = "stale-signal-msg-stops-restarted-oneshot"
K_C = "oneshot-restarted-in-own-callback-stopped"
ENV = {"ASAN_OPTIONS": "detect_leaks=0:exitcode=99"}


# ----------------------------------------------------------------------------- generator
def gen_case(rng, big=False, bias=None):
    nl = rng.range(1, 3)
    nh = rng.range(1, 6 if not big else 8)
    lo = [rng.below(nl) for _ in range(nh)]
    lines = ["init %d %s" % (nl, " ".join(map(str, lo)))]
    sigs = SIGS[:rng.range(1, 3)]
    # approximate bookkeeping (callbacks are ignored; the harness guards `raise` anyway)
    st = {i: 0 for i in range(nh)}
    k = 0
    def one_op(inside):
        h = rng.below(nh)
        r = rng.below(20)
        sig = rng.choice(sigs)
        if r < 6: return ("start", h, sig, rng.below(2))
        if r < 10: return ("oneshot", h, sig, rng.below(2))
        if r < 14: return ("stop", h)
        if r < 16: return ("close", h)
        if r < 18: return ("unref", h)
        if r < 19: return ("ref", h)
        return ("start", h, rng.choice([0, 9, sig]), rng.below(2))
    n = rng.range(6, 40 if not big else 90)
    for _ in range(n):
        r = rng.below(20)
        if bias and rng.chance(1, 3):
            r = bias
        if r < 8:
            o = one_op(False)
            if o[0] in ("start", "oneshot"):
                lines.append(f"{o[0]} h{o[1]} {o[2]} {o[3]}")
                if o[2] in SIGS: st[o[1]] = o[2]
            elif o[0] in ("ref", "unref"):
                lines.append(f"{o[0]} h{o[1]}")
            else:
                lines.append(f"{o[0]} h{o[1]}"); st[o[1]] = 0
        elif r < 13 and len(sigs) > 1 and rng.chance(1, 5):
            a = rng.choice(sigs); b = rng.choice([x for x in sigs if x != a])
            lines.append(f"nestraise {a} {b}")
        elif r < 13:
            live = [s for s in st.values() if s]
            sig = rng.choice(live) if live and rng.chance(9, 10) else rng.choice(sigs)
            for _ in range(rng.choice([1, 1, 1, 2, 3])):
                lines.append(f"raise {sig}")
        elif r < 19:
            for kk in range(k, k + 4):
                if rng.chance(2, 5):
                    ops = [":".join(map(str, one_op(True))) for _ in range(rng.range(1, 3))]
                    lines.append(f"script {kk} " + " ".join(ops))
            k += 4 if rng.chance(1, 2) else 1
            lines.append(f"run {rng.below(nl)}")
        else:
            live = [s for s in st.values() if s]
            sig = rng.choice(live) if live else rng.choice(sigs)
            ops = [":".join(map(str, one_op(True))) for _ in range(rng.below(3))]
            lines.append(f"runraise {rng.below(nl)} {sig} " + " ".join(ops))
    for L in range(nl):
        lines.append(f"run {L}")
    return lines


def gen_burst_case(rng):
    """large bursts: hundreds to thousands of deliveries pending between two dispatches, one or several
    watchers / signums / loops, up to, exactly at and across the pipe capacity; then stop/close with the
    messages still in the pipe"""
    nl = rng.range(1, 2)
    nh = rng.range(1, 4)
    lo = [rng.below(nl) for _ in range(nh)]
    lines = ["init %d %s" % (nl, " ".join(map(str, lo)))]
    sigs = SIGS[:rng.range(1, 2)]
    for h in range(nh):
        lines.append(f"{'oneshot' if rng.chance(1, 5) else 'start'} h{h} {rng.choice(sigs)}")
    for rnd in range(rng.range(1, 2)):
        for sig in sigs:
            per = max(1, sum(1 for l in lines[1:1 + nh] if l.endswith(f" {sig}")))
            n = rng.choice([33, 64, 300, 1000, 1024, 1025, 1500, 2048, 3000, 4000, 4095, 4096, 4097, 5000])
            lines.append(f"burst {sig} {max(1, n // (per if rng.chance(1, 2) else 1))}")
        r = rng.below(6)
        h = rng.below(nh)
        if r == 0: lines.append(f"stop h{h}")
        elif r == 1: lines.append(f"close h{h}")
        elif r == 2: lines += [f"stop h{h}", f"start h{h} {rng.choice(sigs)}"]
        elif r == 3: lines.append(f"unref h{h}")
        for L in range(nl): lines.append(f"run {L}")
    for h in range(nh): lines.append(f"close h{h}")
    for L in range(nl): lines += [f"run {L}", f"run {L}"]
    return lines


def inj_systematic():
    """every system-call boundary (k = 1..6 covers the 5 calls of one critical section; a restart on another
    signum has 10) x before/after x {first watcher, second watcher, one-shot, restart, stop of one of two, stop of
    the last, close} with the watched signal, on one and two loops"""
    for k in range(1, 12):
        for wh in "ba":
            a = f"at {k} {wh}"
            if k <= 6:
                yield ["init 2 0 1 0", "start h0 10", f"{a} 10 start h1 10", "run 0", "run 1", f"{a} 10 oneshot h2 10 1", "run 0", "run 1",
                       f"{a} 10 stop h1", "run 0", "run 1", f"{a} 10 stop h0", "run 0", f"{a} 10 start h0 10", "run 0",
                       f"{a} 10 close h0", "run 0", f"{a} 10 oneshot h1 10", "run 1", "run 0", "raise 10", "run 1", "run 0",
                       f"{a} 12 oneshot h1 12", f"{a} 12 close h1", "run 1", "close h2", "run 0"]
                yield ["init 1 0 0", "oneshot h0 10", f"{a} 10 oneshot h1 10", f"{a} 10 start h1 10", "run 0", f"{a} 10 stop h1", "run 0",
                       "raise 10", "run 0", "start h0 12", f"{a} 12 stop h0", "run 0", f"{a} 10 close h1", f"{a} 10 close h0", "run 0", "run 0"]
            yield ["init 2 0 1", "start h0 10", "start h1 12", f"{a} 10 start h0 12", "run 0", "run 1", f"{a} 12 oneshot h0 10 1", "run 0", "run 1",
                   f"{a} 10 start h1 10", "run 0", "run 1", f"{a} 10 start h1 9", "run 0", "run 1", "raise 10", "run 0", "run 1",
                   "close h0", "close h1", "run 0", "run 1"]


def gen_inj_case(rng):
    """random programs (no scripted callbacks) in which about half of the API calls have a signal raised inside"""
    nl = rng.range(1, 3)
    nh = rng.range(1, 5)
    lo = [rng.below(nl) for _ in range(nh)]
    lines = ["init %d %s" % (nl, " ".join(map(str, lo)))]
    sigs = SIGS[:rng.range(1, 3)]
    st = {i: 0 for i in range(nh)}
    for _ in range(rng.range(6, 30)):
        r = rng.below(20); h = rng.below(nh); sig = rng.choice(sigs)
        if r < 12:
            q = rng.below(12)
            if q < 4: op = f"start h{h} {sig} {rng.below(2)}"; new = sig
            elif q < 7: op = f"oneshot h{h} {sig} {rng.below(2)}"; new = sig
            elif q < 10: op = f"stop h{h}"; new = 0
            elif q < 11: op = f"close h{h}"; new = 0
            else: op = f"start h{h} {rng.choice([0, 9])}"; new = 0
            if rng.chance(3, 5):
                live = [x for x in st.values() if x] + ([new] if new else [])
                isig = rng.choice(live) if live and rng.chance(4, 5) else rng.choice(sigs)
                lines.append(f"at {rng.range(1, 11 if st[h] and new and new != st[h] else 6)} {rng.choice('ba')} {isig} {op}")
            else:
                lines.append(op)
            st[h] = new
        elif r < 15:
            live = [x for x in st.values() if x]
            lines.append(f"raise {rng.choice(live) if live else sig}")
        else:
            lines.append(f"run {rng.below(nl)}")
    for L in range(nl): lines.append(f"run {L}")
    for h in range(nh): lines.append(f"close h{h}")
    for L in range(nl): lines += [f"run {L}", f"run {L}"]
    return lines


BURST_WITNESSES = [
    ["init 1 0", "start h0 10", "burst 10 1500", "run 0", "burst 10 40", "run 0", "close h0", "run 0"],
    ["init 1 0", "start h0 10", "burst 10 4200", "run 0", "burst 10 100", "close h0", "run 0", "run 0"],      # across the capacity
    ["init 2 0 0 1", "start h0 10", "start h1 10", "start h2 12", "burst 10 1100", "burst 12 1300", "stop h1", "run 0", "run 1",
     "close h0", "close h1", "close h2", "run 0", "run 1"],
    ["init 1 0 0", "start h0 10", "oneshot h1 10", "burst 10 4500", "close h0", "run 0", "run 0", "close h1", "run 0"],  # overflow, then close
]


def gen_mt_case(rng):
    """multi-thread run: no scripted callbacks (their global numbering would be scheduling dependent)"""
    nl = rng.range(2, 4)
    nh = rng.range(2, 8)
    lo = [rng.below(nl) for _ in range(nh)]
    lines = ["init %d %s" % (nl, " ".join(map(str, lo)))]
    sigs = SIGS[:rng.range(1, 3)]
    st = {i: 0 for i in range(nh)}
    for _ in range(rng.range(8, 50)):
        r = rng.below(20); h = rng.below(nh); sig = rng.choice(sigs)
        if r < 4: lines.append(f"start h{h} {sig} {rng.below(2)}"); st[h] = sig
        elif r < 8: lines.append(f"oneshot h{h} {sig} {rng.below(2)}"); st[h] = sig
        elif r < 9: lines.append(f"stop h{h}"); st[h] = 0
        elif r < 10: lines.append(f"unref h{h}" if rng.chance(2, 3) else f"ref h{h}")
        elif r < 11: lines.append(f"close h{h}"); st[h] = 0
        elif r < 14:
            # overlapping calls on two loops; biased to "stop a watcher | start another on the same signal"
            others = [j for j in range(nh) if lo[j] != lo[h]]
            if not others: continue
            h2 = rng.choice(others)
            s1 = st[h] if st[h] and rng.chance(2, 3) else sig
            op1 = rng.choice([f"stop h{h}", f"stop h{h}", f"start h{h} {sig} {rng.below(2)}", f"oneshot h{h} {sig} {rng.below(2)}", f"close h{h}"])
            op2 = rng.choice([f"start h{h2} {s1} {rng.below(2)}", f"start h{h2} {s1} 1", f"oneshot h{h2} {s1} {rng.below(2)}", f"stop h{h2}"])
            lines.append(f"race {op1} | {op2}")
            for o in (op1, op2):
                f = o.split(); st[int(f[1][1:])] = int(f[2]) if len(f) > 2 else 0
        else:
            live = [x for x in st.values() if x]
            lines.append(f"raise {rng.choice(live) if live else sig}")
    for h in range(nh): lines.append(f"close h{h}")
    return lines


def run_mt_case(ctx, exe, c, stats):
    rc, out, err = ctx.run(exe, text="\n".join(c) + "\n", env=ENV, timeout=120)
    ctx.count()
    if rc != 0:
        ctx.violation("crash-mt", f"multi-thread signal harness exited {rc}: {err[-900:]}", {"mt": True, "ops": c})
        return False
    ok = True
    seen = set()
    for sig, text in monitor(c, out.splitlines(), mt=True):
        if sig in seen: continue
        seen.add(sig); stats["mt:" + sig] = stats.get("mt:" + sig, 0) + 1
        if ctx.violation(sig, f"C13 (loops on separate threads): {text}", {"mt": True, "ops": c}):
            ok = False
    stats["_mtcb"] = stats.get("_mtcb", 0) + sum(1 for l in out.splitlines() if l.startswith("cb signal"))
    return ok


def exhaustive_cases():
    """all programs of 5 events over one loop, one handle, one signal drawn from
    {start, oneshot, stop, raise, run} followed by raise/run/run — the scope that contains L10"""
    import itertools
    ev = ["start h0 10", "oneshot h0 10 1", "stop h0", "raise 10", "run 0", "start h0 12 1", "oneshot h0 12"]
    for p in itertools.product(ev, repeat=5):
        yield ["init 1 0"] + list(p) + ["raise 10", "run 0", "run 0"]


# ----------------------------------------------------------------------------- monitor
class Mon:
    """Spec bookkeeping for the property text.  Knows: which handles watch which signal in which
    mode and incarnation; for every delivery the set of (handle, incarnation) that must get one
    callback on the handle's loop; the documented disposition rule."""
    def __init__(self):
        self.viol = []      # (sig, text)
    def v(self, sig, text):
        self.viol.append((sig, text))

    def run(self, prog, out, mt=False):
        it = iter(out)
        H = {}
        exp = {}             # loop -> FIFO of dict(h, sig, inc, done): messages written since the pipe was last drained
        pos = {}             # loop -> index of the first entry not yet known to be read
        scripts = {}
        ncb = 0
        reset_fired = {}
        def watchers(sig):
            return [h for h, x in H.items() if x["sig"] == sig]
        def exp_disp(sig):
            w = watchers(sig)
            if not w: return "dfl"
            if any(not H[h]["os"] for h in w): return "uv"
            return "dfl" if reset_fired.get(sig) else "uv/reset"
        def spec_stop(h):
            x = H[h]; sig = x["sig"]
            if not sig: return
            was_reg = not x["os"]
            x["sig"] = 0
            w = watchers(sig)
            if not w: reset_fired[sig] = False
            elif was_reg and all(H[j]["os"] for j in w): reset_fired[sig] = False   # re-installed with RESETHAND
        hook = [None]
        def sec():
            """one critical section of the running API call (block signals + take the signal lock ... release +
            restore) is complete: its effect on the set of watchers / the disposition is visible from here on"""
            if hook[0]: hook[0]()
        def spec_start(h, sig, os, cbid):
            """returns expected return code"""
            x = H[h]
            if sig == 0: return -22
            if x["sig"] == sig:                        # documented: only the callback changes
                x["cb"] = cbid; return 0
            if x["sig"]:
                spec_stop(h); sec()
            if sig not in SIGS:                        # SIGKILL: handle is left stopped
                sec(); return -22
            w = watchers(sig)
            if not w or (not os and all(H[j]["os"] for j in w)): reset_fired[sig] = False
            x["sig"] = sig; x["os"] = os; x["inc"] += 1; x["cb"] = cbid
            x["pending_at_restart"] = any(e["h"] == h and not e["done"] for e in exp[x["loop"]][pos.get(x["loop"], 0):])
            x["own_cb_restart"] = False
            sec()
            return 0
        def spec_op(w, in_cb_of=None, was_os=False):
            op = w[0]; h = int(w[1])
            x = H[h]
            if op in ("ref", "unref"):
                if x["closed"]: return None
                x["ref"] = op == "ref"; return 0
            if x["closing"]: return None
            if op in ("start", "oneshot"):
                before = (x["sig"], x["inc"])
                rc = spec_start(h, int(w[2]), op == "oneshot", int(w[3]) & 1 if len(w) > 3 else 0)
                if in_cb_of == h and x["inc"] != before[1] and x["os"] and x["sig"]:
                    x["own_cb_restart"] = True
                return rc
            if op == "stop":
                had = x["sig"]; spec_stop(h)
                if had: sec()
                return 0
            if op == "close":
                had = x["sig"]; spec_stop(h); x["closing"] = True
                if had: sec()
                return 0
        def raise_sig(sig, line, obs_h_before):
            if line == "raise skipped-default":
                if exp_disp(sig) != "dfl":
                    self.v("disposition", f"signal {sig} has default disposition though {watchers(sig)} watch it")
                return
            if line != "raised": self.v("protocol", f"unexpected `{line}`"); return
            deliver(sig)
        def deliver(sig):
            w = watchers(sig)
            if w and all(H[h]["os"] for h in w): reset_fired[sig] = True
            # one message per watcher into its loop's pipe; within one delivery the handler walks the
            # watchers regular-first, then by address (= id): that is the order they are read back in
            for h in sorted(w, key=lambda j: (H[j]["os"], j)):
                if len(exp[H[h]["loop"]]) >= PIPE_CAP:
                    continue     # pipe full: outside the property's envelope the message is lost, uncounted
                exp[H[h]["loop"]].append(dict(h=h, sig=sig, inc=H[h]["inc"], done=False))
                H[h]["caught"] += 1
        def check_obs(after, resync_known=True):
            l1 = next(it); l2 = next(it)
            if not l1.startswith("obs sigaction") or not l2.startswith("obs handles"):
                self.v("protocol", f"obs lines missing after `{after}`: {l1}"); return
            hv = {}
            for t in l2.split()[2:]:
                f = t.split(":")
                hv[int(f[0])] = f
            # handles first (known findings resync the bookkeeping, which the disposition rule then uses)
            for h, x in H.items():
                f = hv[h]
                if f[1] == "x":
                    if not x["closed"]: self.v("handle-state", f"h{h} freed without close_cb after `{after}`")
                    continue
                act = f[1].startswith("1")
                if act != bool(x["sig"]):
                    if x["sig"] and x["os"] and not act and x["own_cb_restart"]:
                        self.v(K_C, f"h{h} restarted one-shot on {x['sig']} inside its own one-shot callback is inactive after `{after}`")
                        spec_stop(h)
                    elif x["sig"] and x["os"] and not act and x["pending_at_restart"] and not x["got_cb"] == x["inc"]:
                        self.v(K_B, f"h{h} restarted one-shot on {x['sig']} while a message of an earlier incarnation was in the pipe: inactive without callback after `{after}`")
                        spec_stop(h)
                    else:
                        self.v("active-mismatch", f"h{h} uv_is_active={int(act)} but it should be {'watching ' + str(x['sig']) if x['sig'] else 'stopped'} after `{after}`")
                        x["sig"] = int(f[2]) if act else 0
                if len(f) > 5 and (f[5] == "r") != x["ref"]:
                    self.v("ref-flag", f"h{h} uv_has_ref={f[5]} but the last ref/unref call says {'r' if x['ref'] else 'u'} after `{after}`")
                    x["ref"] = f[5] == "r"
                if int(f[3]) != x["caught"]:
                    self.v("fanout-caught", f"h{h} caught_signals={f[3]}, deliveries while watching={x['caught']} after `{after}`")
                    x["caught"] = int(f[3])
            for t in l1.split()[2:]:
                s, d = t.split("=")
                if "!nomask" in d:
                    self.v("handler-mask", f"libuv's handler for {s} is installed with an sa_mask that does not block every signal (a nested delivery on the same thread deadlocks on the signal lock) after `{after}`")
                if "!norestart" in d:
                    self.v("handler-flags", f"libuv's handler for {s} is installed without SA_RESTART after `{after}`")
                d = d.split("!")[0]
                if d != exp_disp(int(s)):
                    self.v("disposition", f"sigaction({s}) is {d}, expected {exp_disp(int(s))} (watchers {[(h, 'os' if H[h]['os'] else 'reg') for h in watchers(int(s))]}) after `{after}`")
        def on_signal_cb(L, h, sig, which=None):
            nonlocal ncb
            x = H.get(h)
            if x is None or x["closed"]:
                self.v("cb-after-close", f"signal callback on closed h{h}"); return
            if which != f"c{x['cb']}":
                self.v("wrong-callback", f"h{h}: callback {which} ran, the last successful start installed c{x['cb']}")
            if x["loop"] != L:
                self.v("wrong-loop", f"h{h} (loop {x['loop']}) called while running loop {L}")
            # the pipe is read in FIFO order: the message behind this callback is the first outstanding one
            # for h that is valid, or (known defect L10) of an earlier incarnation on the same signum;
            # everything in front of it has been read without a callback
            lst = exp[L]; ti = None
            for j in range(pos.get(L, 0), len(lst)):
                e = lst[j]
                if e["done"] or e["h"] != h: continue
                if e["sig"] == x["sig"] == sig:
                    ti = j; break
            if ti is None:
                if not x["sig"] or x["closing"]:
                    self.v("cb-after-stop", f"h{h} got a callback for {sig} after stop/close returned")
                else:
                    self.v("cb-without-delivery", f"h{h} got a callback for {sig} with no delivery outstanding (watching {x['sig']})")
            else:
                for j in range(pos.get(L, 0), ti):
                    if not lst[j]["done"]: passed_over(lst[j], L)
                target = lst[ti]
                if target["inc"] != x["inc"]:
                    self.v(K_L10, f"h{h} got a callback for {sig} caught before it was stopped and restarted on the same signal")
                target["done"] = True
                pos[L] = ti + 1
            x = H[h]
            x["got_cb"] = x["inc"]
            was_os = x["os"] and bool(x["sig"])
            for opw in scripts.get(ncb, []):
                spec_op(opw, in_cb_of=h, was_os=was_os)
            ncb += 1
            if was_os and x["inc"] == x["got_cb"]:
                spec_stop(h)                              # one-shot: exactly once, then stopped
            elif x["own_cb_restart"] and x["sig"] and x["os"]:
                # per the property the new one-shot incarnation keeps watching; known defect: it is stopped
                self.v(K_C, f"h{h} restarted one-shot on {x['sig']} inside its own callback is stopped when the callback returns")
                spec_stop(h)
        def passed_over(e, L):
            """message `e` has been read from the pipe and produced no callback"""
            y = H[e["h"]]
            if y["sig"] == e["sig"] and y["inc"] == e["inc"]:
                missed(e, L)
            elif y["sig"] and y["os"] and y["sig"] != e["sig"]:
                # per the property nothing happens; the known defect stops a one-shot incarnation
                self.v(K_B, f"h{e['h']} (one-shot on {y['sig']}) is stopped by a message for {e['sig']} of an earlier incarnation")
                spec_stop(e["h"])
            e["done"] = True
        def missed(e, L):
            y = H[e["h"]]
            if y["os"] and y["own_cb_restart"]:
                self.v(K_C, f"h{e['h']} restarted one-shot inside its own callback was stopped: no callback for {e['sig']}")
                spec_stop(e["h"])
            elif y["os"] and y["pending_at_restart"] and y["got_cb"] != y["inc"]:
                self.v(K_B, f"h{e['h']} restarted one-shot with a stale message in the pipe was stopped: no callback for {e['sig']}")
                spec_stop(e["h"])
            else:
                self.v("fanout-missed", f"h{e['h']} on loop {L} did not get its callback for a delivery of {e['sig']}")
        def end_of_dispatch(L):
            for e in exp[L][pos.get(L, 0):]:
                if not e["done"]: passed_over(e, L)
            exp[L] = []; pos[L] = 0
        def loop_alive(L):
            # uv_run returns at once unless a started *referenced* handle or a closing handle exists
            return any(x["loop"] == L and ((x["sig"] and x["ref"]) or (x["closing"] and not x["closed"])) for x in H.values())
        def on_close_cb(L, h, undisp):
            x = H[h]
            if not x["closing"] or x["closed"]: self.v("close-cb", f"close_cb for h{h} which is not closing / already closed")
            if x["loop"] != L: self.v("wrong-loop", f"close_cb of h{h} on loop {L}")
            if any(e["h"] == h and not e["done"] for e in exp[x["loop"]][pos.get(x["loop"], 0):]):
                self.v("close-before-dispatched", f"close_cb for h{h} while a signal caught for it is still in the pipe")
            x["closed"] = True

        def mt_runall(cmd):
            """multi-thread harness: all loops are brought to quiescence after every command"""
            for L in sorted(exp):
                phase = "dispatch"
                while True:
                    o = next(it)
                    if o == f"ran {L}": break
                    f = o.split()
                    if f[:2] == ["cb", "signal"]:
                        if phase != "dispatch": self.v("protocol", "signal callback after a close callback in one quiescence")
                        on_signal_cb(L, int(f[2][1:]), int(f[3]), f[4] if len(f) > 4 else None)
                    elif f[:2] == ["cb", "close"]:
                        if phase == "dispatch": end_of_dispatch(L); phase = "closing"
                        on_close_cb(L, int(f[2][1:]), None)
                    elif f[:2] == ["cb", "wrongthread"]:
                        self.v("wrong-thread", f"signal callback of {f[2]} ran on a thread that does not run its loop")
                    else:
                        self.v("protocol", f"unexpected line: {o}")
                if phase == "dispatch": end_of_dispatch(L)
                for h, x in H.items():
                    if x["loop"] == L and x["closing"] and not x["closed"]:
                        self.v("close-cb-missing", f"h{h} is closing, nothing is pending, but close_cb did not run after `{cmd}`")
            check_obs(cmd)

        for cmd in prog:
            w = cmd.split()
            if mt and w[0] == "init":
                nl = int(w[1])
                H = {i: dict(loop=int(l), sig=0, os=False, inc=0, closing=False, closed=False, caught=0,
                             pending_at_restart=False, own_cb_restart=False, got_cb=-1, ref=True, cb=0) for i, l in enumerate(w[2:])}
                exp = {L: [] for L in range(nl)}
                mt_runall(cmd)
            elif mt and w[0] in ("start", "oneshot", "stop", "close", "ref", "unref"):
                r = next(it)
                e = spec_op([w[0], w[1][1:]] + w[2:])
                want = "ret skip" if e is None else f"ret {e}"
                if r != want: self.v("retcode", f"`{cmd}` answered `{r}`, expected `{want}`")
                mt_runall(cmd)
            elif mt and w[0] == "race":
                # two API calls on handles of different loops, the first one held at its sigaction() call while
                # the second one is issued: libuv serialises them under the signal lock, first then second
                k = w.index("|")
                for part in (w[1:k], w[k + 1:]):
                    r = next(it)
                    e = spec_op([part[0], part[1][1:]] + part[2:])
                    want = "ret skip" if e is None else f"ret {e}"
                    if r != want: self.v("retcode", f"`{' '.join(part)}` (in `{cmd}`) answered `{r}`, expected `{want}`")
                mt_runall(cmd)
            elif mt and w[0] == "raise":
                o = next(it)
                if o == "raise lost": self.v("handler-not-run", f"signal {w[1]} was sent while libuv's handler was installed but the handler never ran")
                else: raise_sig(int(w[1]), o, None)
                mt_runall(cmd)
            elif mt:
                self.v("protocol", f"generator produced `{cmd}`")
            elif w[0] == "init":
                nl = int(w[1])
                H = {i: dict(loop=int(l), sig=0, os=False, inc=0, closing=False, closed=False, caught=0,
                             pending_at_restart=False, own_cb_restart=False, got_cb=-1, ref=True, cb=0) for i, l in enumerate(w[2:])}
                exp = {L: [] for L in range(nl)}
                check_obs(cmd)
            elif w[0] == "script":
                scripts[int(w[1])] = [x.split(":") for x in w[2:]]
            elif w[0] in ("start", "oneshot", "stop", "close", "ref", "unref"):
                r = next(it)
                e = spec_op([w[0], w[1][1:]] + w[2:])
                want = "ret skip" if e is None else f"ret {e}"
                if r != want: self.v("retcode", f"`{cmd}` answered `{r}`, expected `{want}`")
                check_obs(cmd)
            elif w[0] == "raise":
                raise_sig(int(w[1]), next(it), None)
                check_obs(cmd)
            elif w[0] == "at":
                # a signal raised inside the API call.  The harness says what the kernel did with it and after how many
                # completed critical sections of the call (0 = before the call took effect, all = after it did; a
                # restart on another signum is stop + start = two sections): judged as a delivery at that point
                isig = int(w[3]); inj = next(it).split()
                if inj[0] != "inj" or inj[1] not in ("none", "raised", "skipped-default", "dropped-default", "pending"):
                    self.v("protocol", f"unexpected `{' '.join(inj)}`"); continue
                what = inj[1]; at_sec = int(inj[2]) if len(inj) > 2 else -1
                nsec = [0]; fired = [False]
                def point():
                    if fired[0] or nsec[0] != at_sec: return
                    fired[0] = True
                    if what == "raised": deliver(isig)
                    elif exp_disp(isig) != "dfl":
                        self.v("disposition", f"signal {isig} raised inside `{' '.join(w[4:])}` met the default disposition though {watchers(isig)} watch it")
                def step():
                    nsec[0] += 1; point()
                point()
                hook[0] = step
                e = spec_op([w[4], w[5][1:]] + w[6:])
                hook[0] = None
                if what == "pending":
                    self.v("signal-left-blocked", f"signal {isig} raised inside `{' '.join(w[4:])}` is still blocked when the call returns")
                elif what != "none" and not fired[0]:
                    self.v("protocol", f"`{cmd}`: delivery reported after {at_sec} sections, the call has {nsec[0]}")
                r = next(it)
                want = "ret skip" if e is None else f"ret {e}"
                if r != want: self.v("retcode", f"`{cmd}` answered `{r}`, expected `{want}`")
                check_obs(cmd)
            elif w[0] == "nestraise":
                o = next(it); a, b = int(w[1]), int(w[2])
                if o == "raise skipped-default":
                    if exp_disp(a) != "dfl" and exp_disp(b) != "dfl":
                        self.v("disposition", f"`{cmd}` skipped though both signals are watched")
                elif o == "raised 2":
                    raise_sig(a, "raised", None); raise_sig(b, "raised", None)   # B is taken right after A's handler returns
                else:
                    self.v("protocol", f"unexpected `{o}`")
                check_obs(cmd)
            elif w[0] == "burst":
                o = next(it); k = 0
                while k < int(w[2]) and exp_disp(int(w[1])) != "dfl":
                    deliver(int(w[1])); k += 1
                if o != f"raised {k}":
                    self.v("disposition", f"`{cmd}`: `{o}`, but libuv's handler should have been installed for exactly {k} of the raises")
                check_obs(cmd)
            elif w[0] in ("run", "runraise"):
                L = int(w[1])
                alive = loop_alive(L) or w[0] == "runraise"
                phase = "dispatch"
                deferred = None
                while True:
                    o = next(it)
                    if o == f"ran {L}": break
                    f = o.split()
                    if f[:2] == ["cb", "signal"]:
                        if phase != "dispatch": self.v("protocol", "signal callback after the poll phase")
                        on_signal_cb(L, int(f[2][1:]), int(f[3]), f[4] if len(f) > 4 else None)
                    elif f[:2] == ["cb", "close"]:
                        if phase == "dispatch": end_of_dispatch(L); phase = "closing"
                        on_close_cb(L, int(f[2][1:]), None)
                    elif f[0] in ("raised", "raise") and w[0] == "runraise" and phase == "check":
                        phase = "closing"
                        if o == "raise skipped-default" and exp_disp(int(w[2])) != "dfl":
                            deferred = int(w[2])       # judged after the observation (a known finding may explain it)
                        else:
                            raise_sig(int(w[2]), o, None)
                        for opw in w[3:]:
                            spec_op(opw.split(":"))
                    elif o == "check" and w[0] == "runraise" and phase == "dispatch":
                        end_of_dispatch(L); phase = "check"
                        check_obs(cmd + " (poll phase)")
                    else:
                        self.v("protocol", f"unexpected line in run: {o}")
                if alive and phase == "dispatch":
                    end_of_dispatch(L)
                # closing handles whose signals are all dispatched must get close_cb in this iteration
                if alive:
                    for h, x in H.items():
                        if x["loop"] == L and x["closing"] and not x["closed"] and \
                           not any(e["h"] == h and not e["done"] for e in exp[L][pos.get(L, 0):]):
                            self.v("close-cb-missing", f"h{h} is closing, nothing is pending, but close_cb did not run in `{cmd}`")
                check_obs(cmd)
                if deferred is not None and exp_disp(deferred) != "dfl":
                    self.v("disposition", f"signal {deferred} had default disposition in the check phase though {watchers(deferred)} watch it")
            else:
                self.v("protocol", f"generator produced `{cmd}`")
        return self.viol


def monitor(prog, out, mt=False):
    m = Mon()
    try:
        m.run(prog, out, mt)
    except StopIteration:
        m.v("log-short", "implementation log ended early")
    return m.viol


# ----------------------------------------------------------------------------- running
def driver_retry(ctx, text):
    """the driver binary is shared with concurrently running builds: it can be missing for a moment while
    lake relinks it; that is not a verdict about libuv"""
    last = None
    for attempt in range(8):
        try:
            return ctx.driver(["signal"], text)
        except (OSError, RuntimeError) as e:
            last = e
            time.sleep(1.5 * (attempt + 1))
    raise last


def run_impl(ctx, exe, c):
    rc, out, err = ctx.run(exe, text="\n".join(c) + "\n", env=ENV, timeout=60)
    return rc, out.splitlines(), err


def shrink(ctx, exe, c, sig):
    cur = list(c)
    i = 1
    while i < len(cur):
        cand = cur[:i] + cur[i + 1:]
        rc, out, err = run_impl(ctx, exe, cand)
        if sig.startswith("crash"):
            bad = rc != 0
        else:
            bad = rc == 0 and any(s == sig for s, _ in monitor(cand, out))
        if bad: cur = cand
        else: i += 1
    return cur


def shrink_hang(ctx, exe, c, n_done):
    """the program up to the call that hung; then drop earlier lines while it still hangs (each hanging run costs
    the watchdog time, so under a time budget)"""
    body = [l for l in c if not l.startswith("script")]
    cur = body[:n_done + 1]
    t0 = time.time()
    i = 1
    while i < len(cur) - 1 and time.time() - t0 < 25:
        cand = cur[:i] + cur[i + 1:]
        rc, out, err = run_impl(ctx, exe, cand)
        if rc in (-9, -14, -999) and sum(1 for l in out if l.startswith("obs handles")) == len(cand) - 1: cur = cand
        else: i += 1
    return cur


def run_case(ctx, exe, c, model=True, stats=None):
    """returns False when an unknown violation / broken correspondence was recorded"""
    rc, il, err = run_impl(ctx, exe, c)
    ctx.count()
    if rc != 0:
        # what the monitors saw before the harness died comes first (the property-level reason), then the crash
        for sig, text in monitor(c, il):
            if sig not in ("log-short", "protocol") and sig not in ctx.known:
                ctx.violation(sig, f"C13: {text}", {"ops": c})
        kind = "crash-asan" if "AddressSanitizer" in err else "crash"
        if rc in (-14, -999) and any(l.startswith("nestraise") for l in c):
            kind = "signal-handler-deadlock"     # the watchdog fired inside a nested delivery
        if rc in (-9, -14, -999) and any(l.startswith("at ") for l in c):
            # the watchdog fired inside an API call with a signal raised in it: the call never returned
            n_done = sum(1 for l in il if l.startswith("obs handles"))
            hung = [l for l in c if not l.startswith("script")][n_done:n_done + 1]
            if hung and hung[0].startswith("at "):
                ctx.violation("signal-inside-api-call-deadlock",
                              f"C13: `{hung[0]}`: a watched signal delivered to the thread inside the call (at that system-call "
                              f"boundary) and the call never returned (harness exited {rc})", {"ops": shrink_hang(ctx, exe, c, n_done)})
                return False
        ctx.violation(kind, f"signal harness exited {rc}: {err[-900:]}", {"ops": shrink(ctx, exe, c, kind)})
        return False
    viol = monitor(c, il)
    ok = True
    seen = set()
    for sig, text in viol:
        if sig in seen: continue
        seen.add(sig)
        if stats is not None: stats[sig] = stats.get(sig, 0) + 1
        if sig in ctx.known:
            if sig not in ctx.known_hits:
                ctx.violation(sig, text, {"ops": shrink(ctx, exe, c, sig)})
            continue
        if ctx.violation(sig, f"C13: {text}", {"ops": shrink(ctx, exe, c, sig)}):
            ok = False
    if not ok:
        return False
    if model:
        ml = driver_retry(ctx, "\n".join(c) + "\n").splitlines()
        if il != ml:
            k = next((i for i in range(min(len(il), len(ml))) if il[i] != ml[i]), min(len(il), len(ml)))
            ctx.broken_correspondence("signal model vs src/unix/signal.c",
                                      f"line {k}: impl `{il[k] if k < len(il) else None}` model `{ml[k] if k < len(ml) else None}`; case {c}")
            return False
        ctx.validated()
    ncb = sum(1 for l in il if l.startswith("cb signal"))
    nloops = int(c[0].split()[1])
    if ncb >= 2 and any(l.startswith("cb close") for l in il) and any(l.startswith("script") for l in c):
        ctx.nontrivial("S" + hashlib.sha1("\n".join(l for l in il if not l.startswith("obs")).encode()).hexdigest()[:12])
    if stats is not None:
        stats["_cb"] = stats.get("_cb", 0) + ncb
        stats["_multi"] = stats.get("_multi", 0) + (nloops > 1)
        stats["_reset"] = stats.get("_reset", 0) + any("uv/reset" in l for l in il)
        stats["_requeue"] = stats.get("_requeue", 0) + any(l.startswith("runraise") for l in c)
        for l in il:
            if l.startswith("inj "):
                key = "_inj:" + " ".join(l.split()[1:])
                stats[key] = stats.get(key, 0) + 1
    return True


MT_WITNESSES = [
    ["init 2 0 1", "start h0 10", "race stop h0 | start h1 10", "raise 10", "race stop h1 | oneshot h0 10", "raise 10",
     "start h1 10", "race stop h1 | stop h0", "close h0", "close h1"],
    ["init 2 0 1 0", "oneshot h0 12", "start h1 12", "race stop h1 | start h2 12", "raise 12", "raise 12", "close h0", "close h1", "close h2"],
]

WITNESSES = [
    ["init 1 0", "start h0 10", "raise 10", "stop h0", "start h0 10", "run 0"],                       # L10
    ["init 1 0", "start h0 10", "raise 10", "stop h0", "oneshot h0 12", "run 0"],                     # stale msg stops one-shot
    ["init 1 0", "script 0 stop:0 oneshot:0:12", "oneshot h0 10", "raise 10", "run 0"],               # own callback
    ["init 2 0 1 0", "oneshot h0 10", "start h1 10", "oneshot h2 10", "raise 10", "raise 10", "run 0", "stop h1", "run 1",
     "close h0", "close h1", "close h2", "run 0", "run 1"],
    ["init 1 0 0", "start h0 10", "start h1 10", "runraise 0 10 close:0", "run 0", "run 0"],       # finish_close re-queue
    ["init 1 0", "oneshot h0 10", "stop h0", "start h0 10", "raise 10", "raise 10", "run 0", "raise 10", "run 0"],   # L2 (fixed)
    # callback identity: a start on an active handle (same signum) only replaces the callback - but it does
    ["init 1 0", "start h0 10 0", "start h0 10 1", "raise 10", "run 0", "oneshot h0 10 0", "raise 10", "run 0", "raise 10", "run 0",
     "stop h0", "oneshot h0 12 1", "oneshot h0 12 0", "start h0 12 1", "raise 12", "run 0", "raise 12", "run 0"],
    ["init 1 0 0", "script 0 start:0:10:1 oneshot:1:10:1", "start h0 10 0", "oneshot h1 10 0", "raise 10", "raise 10", "run 0", "raise 10", "run 0"],
    # a second watched signal arriving while the handler of the first is in its write(): both are caught
    ["init 2 0 1 0", "start h0 10", "start h1 12", "oneshot h2 12", "nestraise 10 12", "run 0", "run 1", "nestraise 12 10", "run 1", "run 0"],
    # unreferenced handles: same deferral of close_cb, loop not kept alive by them
    ["init 1 0 0", "start h0 10", "start h1 10", "unref h0", "runraise 0 10 close:0", "run 0", "run 0"],
    ["init 1 0 0", "start h0 10", "start h1 10", "runraise 0 10 close:0 unref:0", "run 0", "run 0"],
    ["init 2 0 1", "start h0 10", "unref h0", "raise 10", "run 0", "start h1 10", "run 0", "ref h0", "run 0", "close h0", "close h1", "run 0", "run 1"],
]


def gencmp_signal(ctx):
    """Tie A broken: does the comparator generated from uv__signal_compare still order the signal tree?
    Evaluates Generated.signal_compare on the 16 keys signum {1,2} x one-shot x loop {0,1} x handle {0,1} (checks/gencmp.py)."""
    import gencmp
    keys = [(sg, os_, lp, h) for sg in (1, 2) for os_ in (0, 1) for lp in (0, 1) for h in (0, 1)]
    b = lambda x: "true" if x else "false"
    r = gencmp.grid_check(keys, lambda a, c: f"match signal_compare {a[3]} {b(a[1])} {a[2]} {a[0]} {c[3]} {b(c[1])} {c[2]} {c[0]} with | some o => o.ret | none => 99")
    ctx.count()
    if r:
        law, ks, vals = r
        ctx.violation("signal_compare-order-law",
                      f"C13: uv__signal_compare as generated from src/unix/signal.c is not a strict total order on "
                      f"(signum, one-shot, loop, handle) keys ({law}) for {ks}: {vals}; RB_INSERT/RB_NFIND/RB_NEXT of "
                      f"uv__signal_tree then miss watchers of a signal (fan-out and handler (un)registration break)",
                      {"gencmp": [list(k) for k in ks]})
    return bool(r)


def run(ctx):
    ctx.trusted += ["RB tree of signal.c = list sorted by uv__signal_compare (pointer order made equal to id order by the harness)",
                    "kernel: raise() delivers synchronously to the calling thread; SA_RESETHAND resets the disposition before the handler runs",
                    "clang/ASan (handles are freed in close_cb: a message outliving its handle is a heap-use-after-free)"]
    ctx.assumptions += ["fewer undelivered signals per loop than the self-pipe holds (property text)",
                        "loops are run from one thread in a scripted order (thread identity of callbacks = the loop being run)"]
    ctx.trusted += ["tools/gen_lean.py (clang AST -> Lean for the loop-free kernels signal_compare, signal_start) and UvModel/CSem.lean"]
    # Tie A: uv__signal_compare / uv__signal_start regenerated from /repo, GenEq/C13 re-proves them = Signal.Key.cmp (+ order laws) / Signal.sigStart
    gen_ok = ctx.gen_lean(need=["C13"])
    lean_ok = ctx.require_lean(["UvModel.GenEq.C13", "UvModel.Props.C13"]) and gen_ok
    exe = ctx.harness("c13_sim", ["harness/c13_sim.c"])
    if exe is None:
        return
    mexe = ctx.harness("c13_mt", ["harness/c13_mt.c"])
    if ctx.replay:
        rp = json.loads(Path(ctx.replay).read_text())["replay"]
        if rp.get("gencmp"):
            gencmp_signal(ctx)
        elif rp.get("mt"):
            if mexe: run_mt_case(ctx, mexe, rp["ops"], {})
        else:
            run_case(ctx, exe, rp["ops"], model=not any(l.startswith("at ") for l in rp["ops"]))
        return
    rng = ctx.rng
    stats = {}
    ok = True
    for c in WITNESSES:
        ok = run_case(ctx, exe, c, stats=stats) and ok
    cdir = VERIF / "corpus/C13"
    if cdir.exists():
        for p in sorted(cdir.glob("*.txt")):
            ok = run_case(ctx, exe, p.read_text().split("\n")[:-1], stats=stats) and ok
    if ok:
        bc = BURST_WITNESSES + [gen_burst_case(rng) for _ in range(ctx.scale(6, 150))]
        for c in bc:
            if not run_case(ctx, exe, c, stats=stats): ok = False; break
        ctx.notes["burst_cases"] = len(bc)
    if ok:
        # a watched signal raised inside uv_signal_start/stop/uv_close at every system-call boundary: monitors only
        # (masking and the signal lock are below the model's level)
        ic = list(inj_systematic()) + [gen_inj_case(rng) for _ in range(ctx.scale(60, 3000))]
        for c in ic:
            if not run_case(ctx, exe, c, model=False, stats=stats): ok = False; break
        ctx.notes["signal_inside_api_call_cases"] = len(ic)
        ctx.notes["signal_inside_api_call_outcomes"] = {k[5:]: v for k, v in stats.items() if k.startswith("_inj:")}
    n_ex = 0
    if ok:
        for c in exhaustive_cases():
            if ctx.quick and n_ex % 24 != ctx.seed % 24:    # quick tier: 1/24 of the scope, rotating with the seed
                n_ex += 1; continue
            n_ex += 1
            if not run_case(ctx, exe, c, stats=stats): ok = False; break
    ctx.notes["exhaustive_scope"] = "7^5 programs over {start,oneshot (2 signums),stop,raise,run} on one handle, then raise/run/run" + \
                                    (" (1/24 sample in the quick tier)" if ctx.quick else "")
    if ok:
        for i in range(ctx.scale(350, 5000)):
            c = gen_case(rng, big=(i % 5 == 0))
            if i == 0: ctx.sample({"program": c[:16]})
            if not run_case(ctx, exe, c, stats=stats): ok = False; break
    if ok and mexe:
        # loops on their own threads, handler on whichever thread the kernel picks: monitors only
        for c in MT_WITNESSES:
            ok = run_mt_case(ctx, mexe, c, stats) and ok
        for i in range(ctx.scale(15, 600)):
            if not ok or not run_mt_case(ctx, mexe, gen_mt_case(rng), stats): ok = False; break
        ctx.notes["multi_thread_cases"] = ctx.scale(15, 600)
        ctx.notes["multi_thread_signal_callbacks"] = stats.get("_mtcb", 0)
    ctx.notes["monitor_signatures_seen"] = {k: v for k, v in stats.items() if not k.startswith("_")}
    ctx.notes["signal_callbacks"] = stats.get("_cb", 0)
    ctx.notes["multi_loop_cases"] = stats.get("_multi", 0)
    ctx.notes["cases_with_RESETHAND_installed"] = stats.get("_reset", 0)
    ctx.notes["cases_with_raise_between_poll_and_closing"] = stats.get("_requeue", 0)
    if not lean_ok and not ctx.violations:
        gencmp_signal(ctx)        # Tie A: evaluate the generated tree comparator on a grid
    if (ctx.broken or not lean_ok) and not ctx.violations:
        ctx.log("obligation broken; searching for a failing input with the monitors")
        srng = SplitMix(ctx.seed + 777)
        n = 0
        for i in range(ctx.scale(7000, 60000)):
            c = gen_case(srng, big=(i % 3 == 0), bias=srng.choice([3, 9, 15, 19]))
            n += 1
            if not run_case(ctx, exe, c, model=False):
                break
        ctx.notes["search"] = f"{n} extra cases run against the monitors after an obligation broke"
    ctx.cov["rule"] = ("witness programs, an exhaustive 5-event scope on one handle, then random multi-loop programs "
                       "(1-3 loops, 1-8 handles, 1-3 signals, start/oneshot/stop/close/invalid signum, raise x1-3, run, "
                       "raise between poll and closing phase, scripted callbacks doing start/oneshot/stop/close on any handle); "
                       "a signal raised inside start/oneshot/stop/close before/after the k-th system call of the call, all k, "
                       "systematically over 7 call kinds and in random programs (monitors only); "
                       "non-trivial = >=2 signal callbacks, a close_cb and a scripted callback; distinct by trace hash")
