"""C01 — loop liveness.  Proof: UvModel.Props.C01 over the LoopModel (HandleKernels + Loop + LoopRun).
Tie B: harness/sim_loop.c (real library, virtual clock, deterministic poller) vs `uvdriver loop`, every
`op/cb/env/obs` line diffed.  Monitors: the liveness formula, counters, ref/unref, uv_run's return value,
uv_loop_close, sanitizers — evaluated on the implementation log only (checks/loopsim.py)."""
from vlib import *
import loopsim

MANIFEST = {
 "text": "Lean 4 theorems over an executable model of the loop accounting (the uv__handle_start/stop/ref/unref, "
         "uv__req_register/unregister macros as stand-alone kernels; uv_close / uv__finish_close / uv__loop_alive / uv_run / "
         "uv_loop_close for timer, idle, prepare, check, async, poll, tcp, udp, pipe, signal, fs_event handles and work / fs (thread-pool and io_uring route) / "
         "getaddrinfo / getnameinfo / random / udp-send / deferred-connect requests incl. uv_cancel on each, callbacks as arbitrary scripts): active_handles = |active & ref & !closing| and active_reqs = |requests owed a "
         "callback| at every API boundary, uv_loop_alive <-> the documented condition, uv_run's return value, uv_loop_close busy "
         "test, ref/unref idempotence.  Also proved: reqs_inv (partition invariant over every program), run_returns with its exact exception, and that the literal alive <-> documented-condition equivalence is false of the code in three narrow situations (Lean witnesses = the three listed known findings) with the corrected boundary theorems alive_iff_boundary / alive_iff_documented; the macro and loop kernels are regenerated from /repo on every run and proved equal to the model kernels (UvModel.GenEq).  The model is tied to the working tree by running generated programs (ops from main and "
         "from inside every callback, three run modes, UV_METRICS_IDLE_TIME on/off) on the real library under a virtual clock and "
         "a deterministic poller and diffing every return value, callback and observation against the model; independent "
         "monitors evaluate the property's own formula on the implementation log, with ASan/LSan and an fd-table check.",
 "note": "Trusted: Lean kernel; the simulator's interposition (clock_gettime, epoll_pwait, thread-pool completions gated to "
         "poll time, pool size 1); clang sanitizers. Passive handle kinds other than poll are exercised through init/start/stop/close only "
         "(poll handles get readable / writable / EPOLLERR traffic); process, tty, fs_poll handles and stream write/shutdown requests "
         "are outside the model (monitor-only programs; covered by C05-C07, C12, C17).  Request kinds: uv_fs_* (open, close, read, write "
         "with buffer counts around IOV_MAX, stat, failing variants) through the thread pool and, on a loop configured with "
         "UV_LOOP_USE_IO_URING_SQPOLL, through the io_uring ring (completion-queue order is an input), numeric uv_getaddrinfo / "
         "uv_getnameinfo (submitted to an idle pool only: the pool's separate slow-I/O queue is C08's subject), uv_random; only "
         "uv_queue_work's work_cb is held until poll time, other work finishes as soon as the single worker reaches it; the "
         "result value of an fs operation is not modelled (status 0 / UV_ECANCELED / UV_EAI_CANCELED is); the io_uring "
         "EOPNOTSUPP retry path and a full submission ring are not exercised. Inside the closing phase uv_loop_alive() ignores the batch being delivered (documented as an "
         "interpretation; witness theorem alive_in_close_phase_witness).",
 "design": "DESIGN.md §3 C01",
}

def run(ctx):
    ctx.gen_lean()          # Tie A: regenerate lean/UvModel/Generated from /repo; GenEq ties HandleKernels to it
    loopsim.drive(ctx, "C01", ["UvModel.Props.C01", "UvModel.GenEq"], ["C01", "C01", "C02", "C03"], 900, 12000)
