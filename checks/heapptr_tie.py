"""Tie between /repo/src/heap-inl.h at the POINTER level and the pointer-level heap model
(lean/UvModel/HeapPtr.lean, proved in Props/HeapPtrRefine to refine the BFS-array heap of C04Heap).
Called from checks/c04.py; it adds obligations and cases to that check's evidence.

One generated stream (valid programs), run on the real inline functions (harness/heapptr_ops.c, ASan/UBSan)
and on the model (`uvdriver heapptr`), every output line diffed - the complete memory after each operation:
left/right/parent of every node cell (stale cells of removed nodes included), heap.min and heap.nelts.
  * valid: `reset N`, then `ins i key` for an i that is not in the heap, `rem i` for a member, `deq`
    (also on the empty heap).  Keys come from a small span so ties happen; removals are biased to deep
    members, the BFS-last node, the root and interior nodes; heaps of up to 31 nodes (63 in the search).
  * an INDEPENDENT monitor in plain Python judges the implementation's output alone (it never looks at the
    model): its own reference is the set of member ids with their keys; from every dumped memory line it
    checks nelts, min, reachability = members (no sharing / cycles), parent/child coherence, the shape (the
    complete tree in level order), heap order on every edge, root = least key, and that each op changed the
    member set by exactly the node it names (`deq`: the previous root).
There is NO `wild` stream: heap-inl.h has preconditions (insert a non-member, remove a member); outside them
the C dereferences NULL or walks stale pointers, so nothing meaningful can be compared there.
"""
import json
from pathlib import Path

BATCH = 25
CLASSES = ("parent-coherence", "complete", "order", "min", "members", "nelts", "crash")


# ----------------------------------------------------------------------------- generation
class _Sim:
    """array heap with the sift rules of heap-inl.h; used ONLY to steer generation (which ids are deep /
    last / interior, which id a `deq` takes) and to keep shrink candidates valid - never to judge"""

    def __init__(self):
        self.arr, self.key = [], {}

    def _up(self, i):
        a, k = self.arr, self.key
        while i > 0 and k[a[i]] < k[a[(i - 1) // 2]]:
            a[i], a[(i - 1) // 2] = a[(i - 1) // 2], a[i]
            i = (i - 1) // 2

    def ins(self, x, key):
        self.key[x] = key
        self.arr.append(x)
        self._up(len(self.arr) - 1)

    def rem(self, x):
        a, k = self.arr, self.key
        i = a.index(x)
        last = a.pop()
        if i == len(a):
            return
        a[i] = last
        while True:
            s = i
            if 2 * i + 1 < len(a) and k[a[2 * i + 1]] < k[a[s]]:
                s = 2 * i + 1
            if 2 * i + 2 < len(a) and k[a[2 * i + 2]] < k[a[s]]:
                s = 2 * i + 2
            if s == i:
                break
            a[i], a[s] = a[s], a[i]
            i = s
        self._up(i)


def gen_valid(rng, steps, nmax=None, bias=None):
    n = nmax or rng.choice([7, 15, 31])
    span = rng.choice([3, 8, 50, 1000])
    sim = _Sim()
    lines = [f"reset {n}"]

    def do_ins():
        free = [i for i in range(1, n + 1) if i not in sim.arr]
        if not free:
            return False
        i = rng.choice(free); key = rng.below(span)
        sim.ins(i, key)
        lines.append(f"ins {i} {key}")
        return True

    def do_rem():
        a = sim.arr
        if not a:
            return False
        kind = rng.choice(["deep"] * 3 + ["interior"] * 3 + ["last", "root"] + ["any"] * 2)
        pool = {"deep": a[len(a) // 2:], "interior": a[1:max(1, len(a) // 2)], "last": a[-1:], "root": a[:1]}.get(kind, a)
        x = rng.choice(pool or a)
        sim.rem(x)
        lines.append(f"rem {x}")
        return True

    fill = rng.below(4)
    if fill == 2:                           # fill first: large heaps are reached
        for _ in range(rng.range(n // 2, n)):
            do_ins()
    elif fill == 3:
        # shaped fill: keys already in heap order along the level order (such inserts never sift), some subtrees
        # lifted far above the rest - then the BFS-last node is often smaller than several ancestors of a deep
        # node elsewhere, and removing that node makes the replacement walk UP more than one level
        ids = list(range(1, n + 1))
        ks = []
        for pos in range(rng.range(n // 2, n)):
            i = ids.pop(rng.below(len(ids)))
            k = 0 if pos == 0 else ks[(pos - 1) // 2] + rng.below(span) + (span * 8 if rng.chance(1, 4) else 0)
            ks.append(k)
            sim.ins(i, k)
            lines.append(f"ins {i} {k}")
    ops = ["ins"] * 4 + ["rem"] * 4 + ["deq"] * 2 + ([bias] * 8 if bias in ("ins", "rem", "deq") else [])
    for _ in range(steps):
        op = rng.choice(ops)
        if op == "deq":
            if sim.arr:
                sim.rem(sim.arr[0])
            elif not rng.chance(1, 3):      # occasionally on the empty heap (nothing changes)
                do_ins(); continue
            lines.append("deq")
        elif op == "rem":
            do_rem() or do_ins()
        else:
            do_ins() or do_rem()
    return lines


def valid_prog(lines):
    """shrink candidates: every `ins` names a non-member in range, every `rem` a member (the id a `deq`
    takes is predicted with the generation sim)"""
    if not lines or lines[0].split()[0] != "reset":
        return False
    n, sim = int(lines[0].split()[1]), _Sim()
    for l in lines[1:]:
        w = l.split()
        if w[0] == "reset":
            return False
        if w[0] == "ins":
            if not 1 <= int(w[1]) <= n or int(w[1]) in sim.arr:
                return False
            sim.ins(int(w[1]), int(w[2]))
        elif w[0] == "rem":
            if int(w[1]) not in sim.arr:
                return False
            sim.rem(int(w[1]))
        elif w[0] == "deq" and sim.arr:
            sim.rem(sim.arr[0])
    return True


# ----------------------------------------------------------------------------- monitor
def parse_mem(o, n):
    """`mem L:R:P ... | MIN NELTS` -> (left, right, parent, min, nelts) with 1-based lists, or None"""
    w = o.split()
    if len(w) != n + 4 or w[0] != "mem" or w[n + 1] != "|":
        return None
    if any(c.count(":") != 2 for c in w[1:n + 1]):
        return None
    try:
        nums = list(map(int, " ".join(w[1:n + 1]).replace(":", " ").split()))
        mn, ne = int(w[n + 2]), int(w[n + 3])
    except ValueError:
        return None
    if len(nums) != 3 * n or (nums and not 0 <= min(nums) <= max(nums) <= n) or not 0 <= mn <= n or ne < 0:
        return None
    return [0] + nums[0::3], [0] + nums[1::3], [0] + nums[2::3], mn, ne


def monitor(lines, out, stats=None):
    """property-level judgement on the implementation's output alone.
    Returns None or (line index, short text, class); class `invalid` = the program left the preconditions
    (generator/shrinker matter, not a finding).  `stats` (dict) collects max heap size and deep removals."""
    n, members, prev_min, prev_order = 0, {}, 0, []
    for k, cmd in enumerate(lines):
        w = cmd.split()
        if k >= len(out):
            return (k, f"no output for `{cmd}` (harness stopped after {len(out)} of {len(lines)} lines)", "crash")
        if w[0] == "reset":
            n, members = int(w[1]), {}
        elif w[0] == "ins":
            if int(w[1]) in members:
                return (k, "insert of a member", "invalid")
            members[int(w[1])] = int(w[2])
        elif w[0] == "rem":
            x = int(w[1])
            if x not in members:
                return (k, "remove of a non-member", "invalid")
            if stats is not None and len(prev_order) >= 7 and x != prev_order[0] and x != prev_order[-1]:
                stats["deep"] = stats.get("deep", 0) + 1
            del members[x]
        elif w[0] == "deq":
            if members:
                del members[prev_min]      # the previous dump was judged: prev_min is a member with the least key
        m = parse_mem(out[k], n)
        if m is None:
            return (k, f"unreadable output `{out[k][:80]}`", "crash")
        left, right, parent, mn, ne = m
        if ne != len(members):
            return (k, f"nelts={ne} but {len(members)} nodes are in the heap", "nelts")
        if (mn == 0) != (not members):
            return (k, f"min={mn} with {len(members)} members", "min")
        order, seen, incoherent = [], set(), None
        if mn:
            if parent[mn] != 0:
                incoherent = f"root {mn} has parent {parent[mn]}"
            order.append(mn); seen.add(mn)
            i = 0
            while i < len(order) and len(order) <= ne + 1:
                x = order[i]; i += 1
                for side, c in (("left", left[x]), ("right", right[x])):
                    if c == 0:
                        continue
                    if c in seen:
                        return (k, f"node {c} is reached twice (again as {side} of {x}): shared node or cycle", "members")
                    if parent[c] != x and incoherent is None:
                        incoherent = f"{x}.{side}={c} but {c}.parent={parent[c]}"
                    order.append(c); seen.add(c)
        if seen != set(members):
            extra, missing = sorted(seen - set(members)), sorted(set(members) - seen)
            return (k, f"tree from min reaches {sorted(seen)[:40]}, members are {sorted(members)[:40]}"
                       f" (unexpected {extra[:8]}, lost {missing[:8]})", "members")
        if incoherent:
            return (k, incoherent, "parent-coherence")
        for i, x in enumerate(order):
            el = order[2 * i + 1] if 2 * i + 1 < ne else 0
            er = order[2 * i + 2] if 2 * i + 2 < ne else 0
            if left[x] != el or right[x] != er:
                return (k, f"not the complete tree: node {x} at level-order position {i} has children "
                           f"{left[x]},{right[x]}, expected {el},{er}", "complete")
        for x in order:
            for c in (left[x], right[x]):
                if c and members[c] < members[x]:
                    return (k, f"heap order: key[{c}]={members[c]} < key of its parent {x} = {members[x]}", "order")
        if members and members[mn] != min(members.values()):
            return (k, f"min={mn} has key {members[mn]}, least key is {min(members.values())}", "min")
        prev_min, prev_order = mn, order
        if stats is not None:
            stats["max"] = max(stats.get("max", 0), ne)
            if stats.get("snap") == k:      # shrinker: the (judged) heap after line k, in level order, with keys
                stats["snap_state"] = (list(order), dict(members))
    return None


def judge(lines, rc, out, err, stats=None):
    bad = monitor(lines, out, stats)
    if bad and bad[2] == "invalid":
        return None
    why = ""
    if rc != 0:
        el = err.splitlines()
        why = "TIMEOUT" if rc == -999 else next((l.strip()[:160] for l in el if "ERROR" in l or "runtime error" in l),
                                                 (el[-1][:160] if el else ""))
    if bad is None and rc != 0:
        return (len(lines) - 1, f"harness exit {rc}: {why}", "crash")
    if bad and bad[2] == "crash" and rc != 0:
        return (bad[0], f"{bad[1]}; harness exit {rc}: {why}", "crash")
    return bad


def run_one(ctx, exe, lines, timeout=20):
    rc, out, err = ctx.run(exe, text="\n".join(lines) + "\n", timeout=timeout)
    return rc, out.splitlines(), err


def sig_of(lines, bad):
    return f"heapptr-{lines[bad[0]].split()[0]}-{bad[2]}"


def shrink(ctx, exe, lines, bad, cap=60):
    """shortest failing prefix; then the heap the failing op started from is rebuilt by inserting its members
    in level order (such inserts never sift, so the same tree with the same ids results - read off the
    implementation's own dump, which the monitor had judged a proper heap) and only the failing op follows;
    then greedy single-line deletion (program kept valid, same signature)"""
    want = sig_of(lines, bad)
    cur = lines[:bad[0] + 1]
    rc, out, err = run_one(ctx, exe, cur)
    snap = {"snap": bad[0] - 1}
    b = judge(cur, rc, out, err, snap)
    if not b or sig_of(cur, b) != want:
        return lines, bad                   # does not reproduce alone: keep the program as it was seen
    cur, curbad, runs, i = cur[:b[0] + 1], b, 0, 1

    def attempt(cand):
        nonlocal runs
        runs += 1
        rc2, o2, e2 = run_one(ctx, exe, cand, timeout=5)
        b2 = judge(cand, rc2, o2, e2)
        return b2 if b2 and sig_of(cand, b2) == want else None

    if "snap_state" in snap and b[0] == bad[0] and len(snap["snap_state"][0]) + 2 < len(cur):
        order, keys = snap["snap_state"]
        cand = [cur[0]] + [f"ins {x} {keys[x]}" for x in order] + [cur[-1]]
        b2 = attempt(cand)
        if b2:
            cur, curbad = cand[:b2[0] + 1], b2
    chunk = max(1, (len(cur) - 1) // 2)     # chunks first (a failure may depend on the parity / bits of nelts), then single lines
    while runs < cap:
        if i >= len(cur):
            if chunk == 1:
                break
            chunk, i = chunk // 2, 1
            continue
        cand = cur[:i] + cur[i + chunk:]
        b2 = attempt(cand) if len(cand) > 1 and valid_prog(cand) else None
        if b2:
            cur, curbad = cand[:b2[0] + 1], b2
        else:
            i += chunk if chunk > 1 else 1
    used = max([int(l.split()[1]) for l in cur[1:] if l.split()[0] in ("ins", "rem")] or [0])
    if used and used < int(cur[0].split()[1]):
        cand = [f"reset {used}"] + cur[1:]
        b2 = attempt(cand)
        if b2:
            cur, curbad = cand[:b2[0] + 1], b2
    return cur, curbad


# ----------------------------------------------------------------------------- the tie
def run(ctx, lean_ok=True):
    """returns True when it consumed ctx.replay"""
    exe = ctx.harness("heapptr_ops", ["harness/heapptr_ops.c"], link_lib=False)
    if ctx.replay:
        rp = json.loads(Path(ctx.replay).read_text()).get("replay", {})
        if not isinstance(rp, dict) or "heapptr_ops" not in rp:
            return False
        if exe is not None:
            lines = rp["heapptr_ops"]
            rc, out, err = run_one(ctx, exe, lines)
            bad = judge(lines, rc, out, err)
            if bad:
                ctx.violation(rp.get("sig") or sig_of(lines, bad),
                              f"C04 (src/heap-inl.h pointer heap): replay: after `{' ; '.join(lines[:bad[0] + 1][-4:])}` {bad[1]}", rp)
        return True
    if exe is None:
        return False
    from vlib import SplitMix
    rng = SplitMix(ctx.seed * 7919 + 0x4EA9)      # own stream: the owning check's generation is not perturbed
    nprog = ctx.scale(150, 3000)
    hist, stats = {}, {}
    st = {"diffs": 0, "mon_fail": False, "programs": 0, "diff_op": None}

    def impl_outputs(progs):
        """one harness process for the whole batch; any anomaly -> every program alone"""
        rc, out, err = ctx.run(exe, text="".join("\n".join(p) + "\n" for p in progs), timeout=20)
        ol = out.splitlines()
        if rc == 0 and len(ol) == sum(len(p) for p in progs):
            res, pos = [], 0
            for p in progs:
                res.append((0, ol[pos:pos + len(p)], "")); pos += len(p)
            return res
        return None

    def report(lines, bad):
        lo, b = shrink(ctx, exe, lines, bad)
        sig = sig_of(lo, b)
        ctx.violation(sig, f"C04 (src/heap-inl.h pointer heap): after `{' ; '.join(lo[:b[0] + 1][-4:])}` {b[1]}"
                           f" [{b[2]}; program {st['programs']} of this run, {len(lo)} lines after shrinking]",
                      {"heapptr_ops": lo, "sig": sig})

    def do_batch(progs, with_model=True):
        res = impl_outputs(progs)
        green = []
        for j, lines in enumerate(progs):
            rc, out, err = res[j] if res is not None else run_one(ctx, exe, lines)
            ctx.count(); st["programs"] += 1
            for l in lines:
                hist[l.split()[0]] = hist.get(l.split()[0], 0) + 1
            s1 = {}
            bad = judge(lines, rc, out, err, s1)
            if bad:
                st["mon_fail"] = True
                if res is not None:         # seen inside a batch: take this program's own run
                    rc, out, err = run_one(ctx, exe, lines)
                    bad = judge(lines, rc, out, err) or bad
                report(lines, bad)
                break
            stats["max"] = max(stats.get("max", 0), s1.get("max", 0))
            stats["deep"] = stats.get("deep", 0) + s1.get("deep", 0)
            if s1.get("deep"):
                ctx.nontrivial(("heapptr", int(lines[0].split()[1]), s1["deep"], s1.get("max", 0) // 8))
            green.append((lines, out))
        if not with_model or not green:
            return
        ml = ctx.driver(["heapptr"], "".join("\n".join(l) + "\n" for l, _ in green)).splitlines()
        pos = 0
        for lines, out in green:
            mout = ml[pos:pos + len(lines)]; pos += len(lines)
            ctx.validated()
            if mout != out:
                st["diffs"] += 1
                k = next((i for i in range(min(len(out), len(mout))) if out[i] != mout[i]), min(len(out), len(mout)))
                if st["diff_op"] is None:
                    st["diff_op"] = lines[k].split()[0] if k < len(lines) else None
                if st["diffs"] <= 3:
                    ctx.broken_correspondence("heap pointer model (UvModel.HeapPtr) vs src/heap-inl.h",
                                              f"valid program, first difference at output line {k} after `{lines[k] if k < len(lines) else None}`: "
                                              f"impl `{out[k] if k < len(out) else None}` model `{mout[k] if k < len(mout) else None}`; "
                                              f"program up to there: {' ; '.join(lines[:k + 1])}")

    done = 0
    while done < nprog and not st["mon_fail"]:
        progs = [gen_valid(rng, rng.choice([8, 20, 40])) for _ in range(min(BATCH, nprog - done))]
        done += len(progs)
        do_batch(progs)
    if (st["diffs"] or not lean_ok) and not st["mon_fail"]:
        # the model no longer matches the code (or a proof no longer checks): search for a property-level
        # failure with the monitor alone over a much larger generation, biased to the differing op
        done = 0
        while done < 20 * nprog and not st["mon_fail"]:
            progs = [gen_valid(rng, rng.choice([40, 80, 120]), nmax=rng.choice([31, 63]), bias=st["diff_op"])
                     for _ in range(BATCH)]
            done += len(progs)
            do_batch(progs, with_model=False)
    ctx.notes["heapptr_tie"] = {"programs": st["programs"], "op_histogram": hist, "max_heap_size": stats.get("max", 0),
                                "deep_removals": stats.get("deep", 0), "model_impl_diffs": st["diffs"]}
    return False
