"""C10 — UDP (src/unix/udp.c, src/uv-common.c:456-533).
Proof: UvModel.Props.C10 over the model UvModel.Udp.  Tie B: (1) unit harness that #includes udp.c with
sendmsg/sendmmsg/recvmsg/recvmmsg redirected to scripted fakes and drives uv__udp_sendmsgv directly
(`uvdriver c10v`); (2) whole-library harness with real uv_udp_t handles sending over loopback to raw
receiving sockets, the four system calls interposed for scripted errors / partial batches / scripted
receive queues (`uvdriver c10`).  Monitors evaluate the property text on the implementation's log only."""
from vlib import *

MANIFEST = {
 "text": "Lean 4 theorems over an executable model of udp.c: uv__udp_sendmsgv returning n>0 sent exactly datagrams "
         "0..n-1 for every batch size and every schedule of sendmsg/sendmmsg results (induction over chunks); "
         "send_queue_size/count and the handle's active requests equal the bytes/number of requests owed a callback in "
         "every reachable state; accepted requests = called back ++ completed queue ++ write queue with pairwise distinct "
         "ids (callback exactly once); datagrams handed to the OS are an in-order duplicate-free subsequence of those "
         "submitted; try_send/try_send2 make no system call while requests are queued; every alloc'd receive buffer is "
         "handed back by exactly one non-chunk recv_cb (MMSG_FREE in recvmmsg mode); every uv__udp_recvmsg invocation "
         "ends within 32 iterations for every buffer size; send_cb status is 0 iff the datagram was handed to the OS, "
         "UV_ECANCELED for requests still queued at close, otherwise the errno of the failed call that carried the "
         "request; every datagram the kernel hands over is delivered by one recv_cb in order with the kernel's length, "
         "sender and truncation flag. The model is tied to the working tree by running model and "
         "implementation on the same programs / outcome schedules and diffing every line, plus monitors that evaluate "
         "the property directly on what the real code did (raw receiver sockets, callbacks, getters).",
 "note": "Trusted: Lean kernel; clang/ASan/UBSan; the interposed system calls (forwarded with syscall(2) unless "
         "scripted); Linux loopback delivering datagrams synchronously and in order. Assumed kernel contract: "
         "sendmmsg/recvmmsg with vlen>=1 return 1..vlen or -1. Modelled: uv__udp_send, uv__udp_sendmsg, "
         "uv__udp_sendmsgv, uv__udp_sendmsg1, try_send, try_send2, run_completed, finish_close, recvmsg, recvmmsg, "
         "recv_start/stop, close, uv_run phase order per handle. Not modelled: bind/connect/multicast options, "
         "non-Linux branches, send_cb == NULL, API calls on a closing handle (not generated), callbacks acting on "
         "other handles, errno left over from earlier system calls (see the try_send2 bad-family lead). "
         "send_cb_status uses two ghost fields of the model (klog, cancelled) that the driver does not print.",
 "design": "DESIGN.md §3 C10",
 "technique": "Lean 4 proof over executable model + correspondence (unit-include harness with scripted "
              "sendmmsg; whole-library harness with interposed syscalls and raw loopback receivers) + monitors",
}

ASAN = {"ASAN_OPTIONS": "detect_leaks=0:abort_on_error=0:exitcode=99"}
KNOWN_STOP_SIG = "recv-stop-in-chunk-no-free"


# ----------------------------------------------------------------------------- unit: uv__udp_sendmsgv
def unit_monitor(line, out):
    """try_send2_prefix on the implementation's own log: the datagrams taken by the fake kernel are exactly
    0..ret-1 (nothing if ret <= 0); every call offers the next unsent datagrams, contiguous, <= 20, with the
    right iovec count / address; EINTR is retried with the same vector; the error is reported as documented."""
    w = line.split()
    count, shape = int(w[1]), int(w[2])
    badfam = {int(t[1:]) for t in w[3:] if t[0] == "b"}
    outs = [t for t in w[3:] if t[0] != "b"]
    if not out or not out[-1].startswith("ret "):
        return "no ret line"
    m = re.match(r"ret (-?\d+) left=(\d+)", out[-1])
    ret = int(m.group(1))
    taken, last_err, pos = 0, None, 0
    for c in out[:-1]:
        m = re.match(r"call (mmsg|msg) \[(.*)\] (-?\d+)$", c)
        if not m:
            return f"unexpected line {c}"
        kind, ents, r = m.group(1), m.group(2).split(), int(m.group(3))
        if last_err is not None and last_err != -4:
            return f"system call after error {last_err}"
        if (kind == "mmsg") != (count > 1):
            return f"{kind} used for count={count}"
        if any(taken <= b < taken + 20 for b in badfam):
            return f"system call although datagram {min(b for b in badfam if b >= taken)} of the next chunk has an unsupported family"
        if len(ents) > 20 or len(ents) != min(20, count - taken) and kind == "mmsg":
            return f"call offers {len(ents)} datagrams with {count - taken} unsent"
        for j, e in enumerate(ents):
            if e.endswith("!"):
                return f"bad address length in {e}"
            i, nb, d = map(int, e.split(":"))
            if i != taken + j:
                return f"call offers datagram {i} at slot {j} but first unsent is {taken}"
            if i in badfam:
                return f"datagram {i} with an unsupported address family was passed to the kernel"
            if nb != 1 + (i + shape) % 3 or d != (i * (shape + 1)) % 3:
                return f"datagram {i} passed with nbufs={nb} dest={d}"
        if r > 0:
            taken += r
            last_err = None
        else:
            last_err = r
    rejected = (last_err is None or last_err == -4) and taken < count and any(taken <= b < taken + 20 for b in badfam)
    if taken > 0:
        exp = taken
    elif rejected:
        exp = -22
    elif last_err is not None:
        exp = -11 if last_err in (-11, -105) else last_err
    else:
        exp = 0
    if rejected and taken == 0 and ret != -22:
        return f"BADFAM unsupported address family: returned {ret} instead of UV_EINVAL (nothing sent, no system call failed)"
    if ret != exp:
        return f"returned {ret} but the kernel took {taken} datagrams (0..{taken - 1}), last error {last_err}"
    return None


def unit_cases_systematic(counts):
    for count in counts:
        yield f"v {count} {count % 3}"
        if count:
            for b in sorted({0, count - 1, count // 2, min(count - 1, 20), min(count - 1, 19)}):
                yield f"v {count} {count % 3} b{b}"
                yield f"v {count} {count % 3} b{b} e4 k7 e11"
        nchunks = (count + 19) // 20
        for j in range(nchunks if count > 1 else 1):
            pre = ["k20"] * j
            n = min(20, count - 20 * j)
            for tail in (["k1"], [f"k{max(1, n - 1)}"], ["e4", "e4"], ["e11"], ["e105"], ["e13"], ["e4", "e1"],
                         [f"k{max(1, n // 2)}", "e4", "k3", "e11"]):
                yield f"v {count} {(count + j) % 4} " + " ".join(pre + tail)


def unit_case_random(rng):
    count = rng.choice([rng.range(1, 64), rng.range(1, 64), rng.range(65, 200), rng.range(0, 3)])
    outs = [f"b{rng.below(count)}" for _ in range(rng.choice([0, 0, 0, 1, 1, 2]))] if count else []
    for _ in range(rng.range(0, 14)):
        r = rng.below(10)
        outs.append(f"k{rng.range(1, 25)}" if r < 5 else "e4" if r < 7 else "e" + str(rng.choice([11, 105, 13, 1, 90, 0, 101])))
    return f"v {count} {rng.below(5)} " + " ".join(outs)


def split_unit(lines, out):
    res, cur = [], []
    for o in out:
        cur.append(o)
        if o.startswith("ret ") or o == "bad-op":
            res.append(cur); cur = []
    return res


def run_unit(ctx, uexe, lines, label, monitors_only=False):
    text = "\n".join(lines) + "\n"
    rc, iout, ierr = ctx.run(uexe, text=text)
    blocks = split_unit(lines, iout.splitlines())
    if rc != 0 or len(blocks) != len(lines):
        k = min(len(blocks), len(lines) - 1)
        ctx.violation("sendmsgv-crash", f"unit harness exited {rc} at `{lines[k]}`: {ierr[-600:]}",
                      {"mode": "unit", "lines": [lines[k]]})
        return False
    for l, b in zip(lines, blocks):
        ctx.count()
        bad = unit_monitor(l, b)
        if bad and bad.startswith("BADFAM"):
            if ctx.violation("try-send2-bad-family-not-einval", f"uv__udp_sendmsgv ({label}) `{l}`: {bad[7:]}",
                             {"mode": "unit", "lines": [l]}):
                return False
        elif bad:
            if ctx.violation("sendmsgv-batch-not-prefix", f"uv__udp_sendmsgv ({label}) `{shrink_unit(ctx, uexe, l)}`: {bad}",
                             {"mode": "unit", "lines": [shrink_unit(ctx, uexe, l)]}):
                return False
    if monitors_only:
        return True
    mblocks = split_unit(lines, ctx.driver(["c10v"], text).splitlines())
    for l, b, mb in zip(lines, blocks, mblocks):
        if b != mb:
            k = next((i for i in range(min(len(b), len(mb))) if b[i] != mb[i]), min(len(b), len(mb)))
            ctx.broken_correspondence("sendmsgv model vs uv__udp_sendmsgv",
                                      f"`{l}` line {k}: impl `{b[k] if k < len(b) else None}` model `{mb[k] if k < len(mb) else None}`")
            return False
        ctx.validated()
        w = l.split()
        if int(w[1]) > 20 and any(t != "k20" for t in w[3:]):  # includes bad-family cases
            ctx.nontrivial("U" + hashlib.sha1("\n".join(b).encode()).hexdigest()[:12])
    return True


def shrink_unit(ctx, uexe, line):
    w = line.split()
    count, shape, outs = int(w[1]), w[2], [t for t in w[3:] if t[0] != "b"]
    bs = [t for t in w[3:] if t[0] == "b"]
    if bs:
        return line
    def bad(c, o):
        l = f"v {c} {shape} " + " ".join(o)
        rc, out, _ = ctx.run(uexe, text=l + "\n")
        try:
            return rc != 0 or unit_monitor(l, out.splitlines()) is not None
        except Exception:
            return True
    while outs and bad(count, outs[:-1]):
        outs = outs[:-1]
    while count > 1 and bad(count - 1, outs):
        count -= 1
    return f"v {count} {shape} " + " ".join(outs)


# ----------------------------------------------------------------------------- sim: whole library
ALLOC_SIZES = [0, 10, 100, 1000, 1500, 65535, 65536, 70000, 131072, 200000, 20 * 65536, 21 * 65536 + 5]


def gen_lens(rng):
    r = rng.below(10)
    if r == 0:
        return [0] * rng.range(1, 3)
    n = rng.choice([1, 1, 1, 2, 3, 4, 5, 7])
    lens = [rng.choice([0, 1, 2, 6, 9, 30, 200]) for _ in range(n)]
    if sum(lens) < 6:
        lens[rng.below(n)] += 6
    if r == 1:
        lens[rng.below(n)] += rng.choice([1400, 9000, 40000])
    return lens


def gen_op(rng, h, in_cb, allow_stop):
    fam, conn = h["fam"], h["conn"]
    good = 0 if conn else (1 if fam == 4 else 2)
    def dest():
        r = rng.below(12)
        if r == 0:
            return 0 if good else good or (1 if fam == 4 else 2)   # EDESTADDRREQ / EISCONN
        if r == 1:
            return 3                                               # unsupported family (EINVAL / EISCONN)
        return good
    lens = ",".join(map(str, gen_lens(rng)))
    r = rng.below(20)
    if r < 8:
        ls = gen_lens(rng)
        en = 1 if (len(ls) > 4 and rng.chance(1, 2)) or rng.chance(1, 12) else 0
        return f"send:{dest()}:{en}:" + ",".join(map(str, ls))
    if r < 11:
        return f"try:{dest()}:" + (lens if rng.chance(9, 10) else "-")
    if r < 15:
        cnt = rng.choice([rng.range(1, 5), rng.range(1, 64), rng.range(21, 64), rng.range(65, 200), 0])
        return f"try2:{cnt}:{3 if rng.chance(1, 8) else good}:{lens}"
    if r < 17:
        return "rstart"
    if r < 18:
        return "rstop" if allow_stop else "rstart"
    if r < 19 and (in_cb or rng.chance(1, 3)):
        return "close"
    return f"send:{good}:0:{lens}"


def gen_souts(rng):
    toks = []
    for _ in range(rng.range(1, 8)):
        r = rng.below(12)
        toks.append("e11" if r < 3 else "e105" if r < 4 else "e4" if r < 6 else
                    "e" + str(rng.choice([1, 13, 90, 101, 0, 22])) if r < 8 else f"k{rng.range(1, 22)}")
    return toks


def gen_rin(rng):
    toks = []
    for _ in range(rng.range(1, 30)):
        r = rng.below(14)
        if r < 10:
            toks.append(f"d{rng.choice([0, 1, 7, 50, 99, 100, 101, 1000, 2000, 65000])}:{1 if rng.chance(1, 5) else 0}:{rng.range(1, 5)}")
        elif r < 11:
            toks.append("e4")
        elif r < 12:
            toks.append("e" + str(rng.choice([11, 111, 12, 22])))
        else:
            toks.append("b")
    return toks


def gen_sim_case(rng, allow_stop_in_chunk=True, big=False):
    nh = rng.choice([1, 1, 2, 2, 3])
    hs, lines = [], []
    for i in range(nh):
        h = {"fam": rng.choice([4, 6]), "conn": rng.below(2), "mmsg": rng.below(2)}
        hs.append(h)
        lines.append(f"new h{i} {h['fam']} {h['conn']} {h['mmsg']}")
    for _ in range(rng.range(4, 40 if big else 22)):
        i = rng.below(nh); h = hs[i]
        stop_ok = allow_stop_in_chunk or not h["mmsg"]
        r = rng.below(20)
        if r < 3:
            lines.append(f"sout h{i} " + " ".join(gen_souts(rng)))
        elif r < 5:
            lines.append(f"alloc h{i} " + " ".join(str(rng.choice(ALLOC_SIZES)) for _ in range(rng.range(1, 4))))
            lines.append(f"rin h{i} " + " ".join(gen_rin(rng)))
            lines.append(f"op h{i} rstart")
        elif r < 7:
            k = rng.below(6)
            kind = rng.choice(["send", "recv"])
            ops = [gen_op(rng, h, True, stop_ok) for _ in range(rng.range(1, 3))]
            lines.append(f"script h{i} {kind} {k} " + " ".join(ops))
        elif r < 11:
            lines.append("run")
        else:
            lines.append(f"op h{i} " + gen_op(rng, h, False, True))
    if rng.chance(2, 3):
        for i in range(nh):
            lines.append(f"op h{i} close")
    lines += ["run", "run", "run"]
    return lines


def blocks_of(lines, out):
    """split the output into one block per input line that produces output"""
    res, pos = [], 0
    for l in lines:
        w = l.split()
        if w[0] in ("sout", "rin", "alloc", "script"):
            res.append([]); continue
        blk = []
        while pos < len(out):
            blk.append(out[pos]); pos += 1
            if blk[-1].startswith("obs ") or blk[-1] == "bad-op":
                break
        res.append(blk)
    return res, out[pos:]


def canon(blocks):
    """inside a block, order lines by handle (cross-handle order in one loop iteration is the kernel's)"""
    out = []
    for b in blocks:
        body = [x for x in b if re.match(r"(wire )?h\d+", x)]
        rest = [x for x in b if not re.match(r"(wire )?h\d+", x)]
        key = lambda x: int(re.match(r"(?:wire )?h(\d+)", x).group(1))
        out += sorted(body, key=key) + rest
    return out


class Mon:
    """property monitors for the whole-library harness; independent of the Lean model"""
    def __init__(self):
        self.h = []
        self.fail = None
        self.sig = None
        self.stop_in_chunk = False
        self.stats = {"wire": 0, "cb_send": 0, "cb_recv": 0, "eagain": 0, "try2_partial": 0, "ecanceled": 0,
                      "err_status": 0, "mmsg_chunks": 0, "enobufs": 0, "enomem": 0}

    def bad(self, sig, what):
        if self.fail is None:
            self.fail, self.sig = what, sig

    def new(self, fam, conn, mmsg):
        self.h.append({"fam": fam, "conn": conn, "mmsg": mmsg, "seq": 0, "sub": {}, "owed": {}, "cbst": {},
                       "wire": [], "must": set(), "never": set(), "closing": False, "errs": set(), "scripts": {},
                       "ncb": {"send": 0, "recv": 0}, "pending": [], "empties_wire": 0,
                       "oserr": [], "nalloc": 0, "pm": ("idle",), "rin": [], "rpos": 0, "payload_off": False,
                       "cur_chunk": False, "souts_left": 0, "recv_on": False, "exp_done": None, "exp_alloc": False,
                       "blk_alloc": 0, "blk_stop": False})

    def op_result(self, i, tok, line):
        """one API call `tok` on handle i produced `line` (None for close)"""
        h = self.h[i]
        w = tok.split(":")
        if line is not None and line.endswith("skipped"):
            if not h["closing"]:
                self.bad("api-skipped", f"h{i} `{tok}` skipped on a handle that is not closing")
            return
        if w[0] == "close":
            h["closing"] = True
            h["recv_on"] = False; h["blk_stop"] = True
            return
        r = int(line.split()[2])
        if w[0] == "rstart" and r == 0:
            h["recv_on"] = True
        if w[0] == "rstop":
            h["recv_on"] = False; h["blk_stop"] = True
        if w[0] in ("send", "try"):
            lens = [] if w[-1] == "-" else list(map(int, w[-1].split(",")))
            seq = h["seq"]; h["seq"] += 1
            h["sub"][seq] = sum(lens)
            if w[0] == "send":
                if r == 0:
                    h["owed"][seq] = sum(lens)
                else:
                    h["never"].add(seq)
                    if r == -12:
                        self.stats["enomem"] += 1
            else:
                if h["owed"] and r not in (-11, -106, -89, -22):
                    self.bad("try-send-overtakes", f"h{i} try_send returned {r} with {len(h['owed'])} requests queued")
                if r >= 0:
                    if r != sum(lens):
                        self.bad("try-send-ret", f"h{i} try_send returned {r} for {sum(lens)} bytes")
                    h["must"].add(seq)
                else:
                    h["never"].add(seq)
                    if r == -11:
                        self.stats["eagain"] += 1
        elif w[0] == "try2":
            cnt, lens = int(w[1]), list(map(int, w[3].split(",")))
            seq0 = h["seq"]; h["seq"] += cnt
            for q in range(seq0, seq0 + cnt):
                h["sub"][q] = sum(lens)
            if h["owed"] and cnt >= 1 and r != -11:
                self.bad("try-send-overtakes", f"h{i} try_send2 returned {r} with {len(h['owed'])} requests queued")
            if r > cnt:
                self.bad("try-send2-prefix", f"h{i} try_send2({cnt}) returned {r}")
            if int(w[2]) == 3 and cnt >= 1 and not h["owed"] and r != -22:
                self.bad("try-send2-bad-family-not-einval",
                         f"h{i} try_send2 with an unsupported address family returned {r} instead of UV_EINVAL")
            n = max(r, 0)
            if 0 < n < cnt:
                self.stats["try2_partial"] += 1
            for q in range(seq0, seq0 + cnt):
                (h["must"] if q < seq0 + n else h["never"]).add(q)
        elif w[0] == "rstop":
            if h["cur_chunk"] and h["pm"][0] == "owed":
                self.stop_in_chunk = True
                h["payload_off"] = True

    def next_tok(self, i, line):
        """match a `ret`/`skipped` line of handle i with the next scripted op"""
        h = self.h[i]
        while h["pending"]:
            tok = h["pending"][0]
            if tok == "close" and not h["closing"]:
                h["pending"].pop(0); self.op_result(i, tok, None); continue
            h["pending"].pop(0)
            self.op_result(i, tok, line)
            return
        self.bad("unexpected-line", f"h{i} result line without a scripted op: {line}")

    def flush_pending(self, i):
        h = self.h[i]
        while h["pending"]:
            tok = h["pending"].pop(0)
            if tok == "close" and not h["closing"]:
                self.op_result(i, tok, None)
            else:
                self.bad("missing-result", f"h{i} scripted op `{tok}` produced no result line")

    def line(self, l):
        m = re.match(r"(wire )?h(\d+) ?(.*)", l)
        i = int(m.group(2)); h = self.h[i]; rest = m.group(3)
        if m.group(1):
            for ent in rest.split():
                mm = re.match(r"(\?|\d+)/(\d+)@(\d)(!?)$", ent)
                self.stats["wire"] += 1
                if mm.group(4):
                    self.bad("wire-corrupt", f"h{i} datagram {ent} arrived corrupted / merged")
                if int(mm.group(3)) != h["fam"]:
                    self.bad("wire-dest", f"h{i} datagram {ent} arrived at the wrong destination")
                if mm.group(1) == "?":
                    h["empties_wire"] += 1
                    continue
                seq, n = int(mm.group(1)), int(mm.group(2))
                if seq not in h["sub"] or h["sub"][seq] != n:
                    self.bad("wire-unknown", f"h{i} datagram {ent} was never submitted with that length")
                if h["wire"] and seq <= h["wire"][-1]:
                    self.bad("wire-order", f"h{i} datagram {seq} arrived after {h['wire'][-1]} (duplicate or reordered)")
                h["wire"].append(seq)
            return
        w = rest.split()
        if w[0] in ("ret", "skipped"):
            self.next_tok(i, l)
        elif w[:2] == ["cb", "send"]:
            self.flush_pending(i)
            seq, st = int(w[2][1:]), int(w[3])
            self.stats["cb_send"] += 1
            if seq not in h["owed"]:
                self.bad("send-cb-not-owed", f"h{i} send_cb for r{seq} which is not owed a callback (twice or never accepted)")
            else:
                del h["owed"][seq]
            h["cbst"][seq] = st
            if st == 0:
                h["must"].add(seq)
            else:
                h["never"].add(seq)
                if st == -125:
                    self.stats["ecanceled"] += 1
                    if not h["closing"]:
                        self.bad("send-cb-status", f"h{i} r{seq} UV_ECANCELED on a handle that was not closed")
                else:
                    self.stats["err_status"] += 1
            h["pending"] = list(h["scripts"].get(("send", h["ncb"]["send"]), []))
            h["ncb"]["send"] += 1
            h["cur_chunk"] = False
        elif w[0] == "alloc":
            self.flush_pending(i)
            h["blk_alloc"] += 1
            k, n = int(w[1][1:]), int(w[2])
            if h["pm"][0] != "idle":
                self.bad("recv-buffer-not-handed-back", f"h{i} alloc_cb while buffer a{h['nalloc'] - 1} is still out ({h['pm']})")
            if k != h["nalloc"]:
                self.bad("alloc-index", f"h{i} alloc index {k}")
            h["nalloc"] = k + 1
            h["pm"] = ("refused",) if n == 0 else ("owed", k, n)
        elif w[:2] == ["cb", "recv"]:
            self.flush_pending(i)
            nread, buf, peer, flags = int(w[2]), w[3], int(w[4]), int(w[5])
            self.stats["cb_recv"] += 1
            if len(w) > 6:
                self.bad("recv-payload", f"h{i} recv_cb payload bytes differ from what the kernel wrote: {l}")
            pm = h["pm"]
            chunk = bool(flags & 8)
            if pm[0] == "refused":
                if nread != -105 or buf != "-":
                    self.bad("recv-enobufs", f"h{i} after a refused allocation: {l}")
                self.stats["enobufs"] += 1
                h["pm"] = ("idle",)
            elif pm[0] == "owed":
                mm = re.match(r"a(\d+)\+(\d+)/(\d+)$", buf)
                if not mm or int(mm.group(1)) != pm[1]:
                    self.bad("recv-buffer", f"h{i} recv_cb with a buffer that is not the outstanding one: {l}")
                else:
                    off, ln = int(mm.group(2)), int(mm.group(3))
                    if chunk:
                        self.stats["mmsg_chunks"] += 1
                        if off + ln > pm[2]:
                            self.bad("recv-buffer", f"h{i} chunk outside the buffer: {l}")
                    elif off != 0 or ln != pm[2]:
                        self.bad("recv-buffer", f"h{i} buffer handed back with different base/len: {l}")
                    else:
                        h["pm"] = ("idle",)
            else:
                self.bad("recv-buffer-twice", f"h{i} recv_cb with no buffer outstanding (handed back twice?): {l}")
            # payload: deliveries (addr != NULL) follow the scripted socket queue in order
            if peer != 0 and not h["payload_off"]:
                while h["rpos"] < len(h["rin"]) and h["rin"][h["rpos"]][0] != "d":
                    h["rpos"] += 1
                if h["rpos"] >= len(h["rin"]):
                    self.bad("recv-payload", f"h{i} delivered a datagram the kernel never had: {l}")
                else:
                    _, ln, tr, pr = h["rin"][h["rpos"]]; h["rpos"] += 1
                    mm = re.match(r"a(\d+)\+(\d+)/(\d+)$", buf)
                    room = int(mm.group(3)) if mm else 0
                    if nread != min(ln, room) or peer != pr or bool(flags & 2) != bool(tr):
                        self.bad("recv-payload", f"h{i} delivered {l} but the kernel reported len={ln} trunc={tr} peer={pr}")
            elif peer == 0 and nread > 0:
                self.bad("recv-payload", f"h{i} data without sender address: {l}")
            h["pending"] = list(h["scripts"].get(("recv", h["ncb"]["recv"]), []))
            h["ncb"]["recv"] += 1
            h["cur_chunk"] = chunk
        elif w[:2] == ["cb", "close"]:
            self.flush_pending(i)
            if h["owed"]:
                self.bad("close-with-owed", f"h{i} close_cb with requests still owed a callback: {sorted(h['owed'])}")
            h["closed"] = True
        elif w[0] == "oserr":
            h["oserr"].append((w[1][1:], int(w[2])))
        elif w[0] == "spun":
            self.bad("recvmsg-spin", f"h{i} more than 3000 callbacks in one loop iteration (uv__udp_recvmsg does not terminate)")
        else:
            self.bad("unexpected-line", f"unexpected line {l}")

    def begin_block(self, is_run):
        """progress expectations for one loop iteration: the socket is writable and readable, so (a) every request
        owed a callback when the iteration starts is completed in it unless scripted kernel refusals are still
        pending for the fd, (b) a handle that is receiving gets at least one alloc_cb"""
        for h in self.h:
            h["blk_alloc"] = 0; h["blk_stop"] = False
            h["exp_done"] = set(h["owed"]) if is_run and h["souts_left"] == 0 else None
            h["exp_alloc"] = bool(is_run and h["recv_on"] and not h["closing"])

    def end_block(self, obs):
        for i, h in enumerate(self.h):
            self.flush_pending(i)
            h["cur_chunk"] = False
            if h["exp_done"]:
                stuck = sorted(q for q in h["exp_done"] if q in h["owed"])
                if stuck:
                    self.bad("send-no-progress", f"h{i} requests {stuck} were queued on a writable socket with no kernel "
                             f"refusal pending, but one loop iteration neither sent them nor called them back")
            if h["exp_alloc"] and h["blk_alloc"] == 0 and not h["blk_stop"]:
                self.bad("recv-no-progress", f"h{i} is receiving and its socket is readable, but one loop iteration made no alloc_cb/recv_cb")
            h["exp_done"] = None; h["exp_alloc"] = False
            if h["pm"][0] != "idle":
                sig = KNOWN_STOP_SIG if self.stop_in_chunk else "recv-buffer-not-handed-back"
                self.bad(sig, f"h{i} buffer a{h['nalloc'] - 1} obtained from alloc_cb was not handed back ({h['pm']})"
                              + (" after uv_udp_recv_stop inside a UV_UDP_MMSG_CHUNK callback" if self.stop_in_chunk else ""))
                h["pm"] = ("idle",)
            wired = set(h["wire"])
            for q, st in h["cbst"].items():
                if st not in (0, -125) and not any(e == -st and e not in (4, 11, 105) and r in (str(q), "?" if h["sub"][q] == 0 else str(q))
                                                  for r, e in h["oserr"]):
                    self.bad("send-cb-status", f"h{i} r{q} status {st} is not the error the OS returned for that datagram "
                                               f"(failed calls: {h['oserr'][-6:]})")
            for q in h["must"]:
                if h["sub"][q] > 0 and q not in wired:
                    self.bad("reported-sent-not-on-wire", f"h{i} datagram {q} reported as sent (status 0 / return value) but never arrived")
            for q in h["never"]:
                if q in wired:
                    self.bad("reported-failed-but-sent", f"h{i} datagram {q} reported as not sent but arrived")
        if obs is None:
            return
        m = re.match(r"obs reqs=(\d+)(.*)", obs)
        if not m:
            self.bad("unexpected-line", f"bad obs line {obs}"); return
        tot = 0
        for i, ent in enumerate(m.group(2).split()):
            mm = re.match(r"h(\d+):q=(\d+)/(\d+):a=(\d)(?::s=(\d+))?", ent)
            h = self.h[i]
            if mm.group(5) is not None:
                h["souts_left"] = int(mm.group(5))
            tot += len(h["owed"])
            if int(mm.group(2)) != sum(h["owed"].values()) or int(mm.group(3)) != len(h["owed"]):
                self.bad("send-queue-counters", f"h{i} send_queue_size/count = {mm.group(2)}/{mm.group(3)} but "
                         f"{sum(h['owed'].values())} bytes / {len(h['owed'])} requests are owed a callback")
        if int(m.group(1)) != tot:
            self.bad("active-reqs", f"loop->active_reqs = {m.group(1)} but {tot} requests are owed a callback")

    def finish(self):
        for i, h in enumerate(self.h):
            exp_empty = sum(1 for q in h["must"] if h["sub"][q] == 0)
            if h["empties_wire"] > sum(1 for q in h["sub"] if h["sub"][q] == 0) or (
                    h.get("closed") and h["empties_wire"] != exp_empty):
                self.bad("wire-empty-count", f"h{i} {h['empties_wire']} empty datagrams arrived, {exp_empty} reported sent")
            if h.get("closed") and h["owed"]:
                self.bad("send-cb-missing", f"h{i} closed but requests {sorted(h['owed'])} never got a callback")


def sim_monitor(lines, out):
    mon = Mon()
    blocks, extra = blocks_of(lines, out)
    for l, b in zip(lines, blocks):
        w = l.split()
        if b and b[-1] == "bad-op":
            mon.bad("generator", f"harness refused `{l}`"); break
        if w[0] == "new":
            mon.new(int(w[2]), int(w[3]), int(w[4]))
            if len(b) != 2 or not b[0].endswith(" 0"):
                mon.bad("setup", f"handle creation failed: {b}"); break
            continue
        i = int(w[1][1:]) if len(w) > 1 and w[1].startswith("h") else None
        if w[0] == "sout":
            mon.h[i]["souts_left"] += len(w[2:])
            for t in w[2:]:
                if t[0] == "e":
                    e = int(t[1:]) or 1
                    if e not in (4, 11, 105):
                        mon.h[i]["errs"].add(e)
        elif w[0] == "rin":
            for t in w[2:]:
                if t[0] == "d":
                    a, b2, c = t[1:].split(":"); mon.h[i]["rin"].append(("d", int(a), int(b2), int(c)))
                else:
                    mon.h[i]["rin"].append((t,))
        elif w[0] == "script":
            mon.h[i]["scripts"][(w[2], int(w[3]))] = w[4:]
        elif w[0] in ("op", "run"):
            if not b or not b[-1].startswith("obs "):
                mon.bad("sim-crash" if not any("spun" in x for x in b) else "recvmsg-spin",
                        "harness output ends inside `" + l + "`: " + " | ".join(b[-3:]))
                for x in b:
                    if x.endswith(" spun"):
                        mon.line(x)
                break
            mon.begin_block(w[0] == "run")
            if w[0] == "op":
                mon.h[i]["pending"] = [w[2]]
                mon.h[i]["cur_chunk"] = False
            for x in b[:-1]:
                if x == "ran":
                    continue
                if re.match(r"(wire )?h\d+", x):
                    mon.line(x)
                else:
                    mon.bad("unexpected-line", f"unexpected line {x}")
            mon.end_block(b[-1])
        if mon.fail:
            break
    if not mon.fail:
        mon.finish()
    return mon


def run_sim_case(ctx, sexe, c):
    rc, iout, ierr = ctx.run(sexe, text="\n".join(c) + "\n", env=ASAN, timeout=120)
    il = iout.splitlines()
    mon = sim_monitor(c, il)
    if rc != 0 and not mon.fail:
        mon.bad("sim-crash", f"harness exited {rc}: {ierr[-700:]}")
    elif mon.sig == "sim-crash":
        mon.fail += f" | exit {rc}: " + " ".join(ierr[-400:].split())
    return il, mon


def shrink_sim(ctx, sexe, c, sig):
    cur = list(c)
    i = len(cur) - 1
    while i >= 0:
        if cur[i].startswith("new"):
            i -= 1; continue
        cand = cur[:i] + cur[i + 1:]
        try:
            _, mon = run_sim_case(ctx, sexe, cand)
            keep = mon.sig == sig
        except Exception:
            keep = False
        if keep:
            cur = cand
        i -= 1
    return cur


def eval_sim(ctx, sexe, c, monitors_only=False):
    """run implementation (+ model) on one case; no ctx mutation (runs in worker threads)"""
    try:
        il, mon = run_sim_case(ctx, sexe, c)
    except Exception as ex:   # monitor parse failure = the log is not what the protocol promises
        return c, None, None, None, repr(ex)
    ml = None
    if not mon.fail and not monitors_only:
        ml = ctx.driver(["c10"], "\n".join(c) + "\n").splitlines()
    return c, il, mon, ml, None


def judge_sim(ctx, sexe, res, monitors_only=False):
    c, il, mon, ml, err = res
    ctx.count()
    if err:
        ctx.broken_correspondence("c10 sim log", f"monitor could not parse the log: {err}; case {c}")
        return False, None
    if mon.fail:
        if mon.sig == "generator":
            ctx.broken_correspondence("c10 generator", mon.fail + f"; case {c}")
            return False, mon
        if mon.sig in ctx.known:
            ctx.violation(mon.sig, f"C10: {mon.fail}", {"mode": "sim", "lines": c})
            return True, mon      # known finding: nothing more to compare on this case
        small = shrink_sim(ctx, sexe, c, mon.sig)
        ctx.violation(mon.sig, f"C10: {mon.fail}", {"mode": "sim", "lines": small})
        return False, mon
    if monitors_only:
        return True, mon
    bi, _ = blocks_of(c, il)
    bm, _ = blocks_of(c, ml)
    ci, cm = canon(bi), canon(bm)
    if ci != cm:
        k = next((j for j in range(min(len(ci), len(cm))) if ci[j] != cm[j]), min(len(ci), len(cm)))
        ctx.broken_correspondence("udp model vs src/unix/udp.c",
                                  f"line {k}: impl `{ci[k] if k < len(ci) else None}` model `{cm[k] if k < len(cm) else None}`; case {c}")
        return False, mon
    ctx.validated()
    st = mon.stats
    if st["eagain"] or st["try2_partial"] or st["err_status"] or st["ecanceled"] or st["mmsg_chunks"] or st["enobufs"] or st["enomem"]:
        ctx.nontrivial("S" + hashlib.sha1("\n".join(il).encode()).hexdigest()[:12])
    return True, mon


def check_sim(ctx, sexe, c, monitors_only=False):
    return judge_sim(ctx, sexe, eval_sim(ctx, sexe, c, monitors_only), monitors_only)


def run_sim_many(ctx, sexe, cases, agg, monitors_only=False):
    """evaluate in parallel, judge in order; stops at the first failing case"""
    with ThreadPoolExecutor(max(2, NCPU - 2)) as ex:
        for res in ex.map(lambda c: eval_sim(ctx, sexe, c, monitors_only), cases):
            ok, mon = judge_sim(ctx, sexe, res, monitors_only)
            if mon:
                for k, v in mon.stats.items():
                    agg[k] = agg.get(k, 0) + v
            if not ok or ctx.violations:
                ex.shutdown(wait=False, cancel_futures=True)
                return False
    return True


CORPUS = [
    # batch beyond one sendmmsg chunk, all succeed / partial results / EINTR / EAGAIN in a later chunk
    ["new h0 4 0 0", "sout h0 e11", "op h0 try:1:6", "op h0 try2:1:3:6", "op h0 try2:30:3:6,2"],
    ["new h0 4 0 0", "op h0 try2:50:1:8", "sout h0 k20 k5 e4 k3 e11", "op h0 try2:50:1:3,3", "op h0 try2:200:1:6",
     "sout h0 e105", "op h0 try2:30:1:6", "sout h0 e13", "op h0 try2:30:1:6"],
    # queue under back-pressure: 45 requests queued, drained in chunks, error pinned on the head
    ["new h0 6 1 0", "sout h0 e11"] + ["op h0 send:0:0:6,1"] * 45 + ["op h0 try:0:6", "op h0 try2:3:0:6",
     "sout h0 k7 e4 e1 k20 e11", "run", "run", "run", "run", "op h0 close", "run"],
    # immediate send on an idle handle refused (EAGAIN / ENOBUFS), nothing else submitted: the next iterations must
    # retry it on POLLOUT, deliver it and call back with 0; same for one refusal after a partial batch
    ["new h0 4 0 0", "sout h0 e11", "op h0 send:1:0:9", "run", "run"],
    ["new h0 6 1 0", "sout h0 e105", "op h0 send:0:0:6,3", "run", "run", "op h0 close", "run"],
    ["new h0 4 0 0", "new h1 6 0 0", "sout h0 e11", "sout h1 e4 e105", "op h1 send:2:0:8", "op h0 send:1:0:7", "run",
     "sout h0 e11", "op h0 send:1:0:6", "run", "run"],
    # ENOMEM rollback, close with sends queued
    ["new h0 4 0 0", "op h0 send:1:1:1,1,1,1,1,1", "sout h0 e11 e11", "op h0 send:1:0:9", "op h0 send:1:0:6",
     "op h0 close", "run", "run"],
    # RECVMMSG with small and large buffers, refusal, errors
    ["new h0 4 0 1", "alloc h0 1000 0 131072 1400000", "rin h0 d50:0:1 d2000:1:2 e4 d7:0:3 b d9:0:1 e22 d1:0:1 " +
     " ".join(f"d{10 + j}:0:2" for j in range(45)), "op h0 rstart", "run", "op h0 rstart", "run", "run", "run", "run",
     "op h0 rstop", "run"],
    # callbacks that send / try_send / stop / close
    ["new h0 4 0 0", "new h1 6 1 1", "script h0 send 0 send:1:0:6 try:1:7 try2:2:1:6", "script h0 send 1 close",
     "sout h0 e11", "op h0 send:1:0:10", "op h0 send:1:0:11", "run", "run", "run",
     "alloc h1 200000", "rin h1 d5:0:1 d6:0:2 d7:0:3", "script h1 recv 1 send:0:0:6 close", "op h1 rstart", "run", "run"],
    # RECVMMSG handle given buffers below 64 KiB: plain recvmsg path, must terminate and deliver
    ["new h0 4 0 1", "alloc h0 1500 65535", "rin h0 d50:0:1 d1500:0:2 d1501:1:3", "op h0 rstart", "run", "run"],
    # uv_udp_recv_stop inside a UV_UDP_MMSG_CHUNK callback: the buffer must still come back (MMSG_FREE)
    ["new h0 4 0 1", "alloc h0 131072", "rin h0 d10:0:1 d20:0:2", "script h0 recv 0 rstop", "op h0 rstart", "run", "run"],
    ["new h0 6 0 1", "alloc h0 1400000", "rin h0 " + " ".join(f"d{10 + j}:0:2" for j in range(30)),
     "script h0 recv 3 rstop rstart", "script h0 recv 9 rstop", "op h0 rstart", "run", "op h0 rstart", "run", "run"],
]


def run(ctx):
    ctx.trusted += ["clang/ASan/UBSan; interposition of sendmsg/sendmmsg/recvmsg/recvmmsg by static linking (harness definitions win)",
                    "Linux loopback: datagrams sent to a bound local socket are queued synchronously and in order (the raw receiver is the observer)",
                    "scripted receive queue: the fake recvmsg/recvmmsg implement the same tiny kernel model as UvModel.Udp.kRecvmsg/kRecvmmsg"]
    ctx.assumptions += ["sendmmsg/recvmmsg called with vlen >= 1 return a value in 1..vlen or -1 (Linux)",
                        "callbacks act on their own handle only; no API calls on a handle after uv_close; send_cb is not NULL",
                        "datagrams already read by recvmmsg are dropped when a chunk callback stops receiving (accepted: the user stopped)"]
    ctx.trusted += ["tools/gen_lean.py (clang AST -> Lean for the loop-free kernels udp_prep_pkt, udp_check_before_send, udp_try_send(_api), udp_try_send2(_api)) and UvModel/CSem.lean"]
    # Tie A: the family switch of uv__udp_prep_pkt and the try_send entry checks regenerated from /repo; GenEq/C10 re-proves them = the model's
    gen_ok = ctx.gen_lean(need=["C10"])
    lean_ok = ctx.require_lean(["UvModel.GenEq.C10", "UvModel.Props.C10"]) and gen_ok
    uexe = ctx.harness("c10_unit", ["harness/c10_unit.c"], link_lib=True)
    sexe = ctx.harness("c10_sim", ["harness/c10_sim.c"], link_lib=True)
    if ctx.replay:
        rp = json.loads(Path(ctx.replay).read_text())["replay"]
        if rp["mode"] == "unit" and uexe:
            run_unit(ctx, uexe, rp["lines"], "replay")
        elif rp["mode"] == "sim" and sexe:
            check_sim(ctx, sexe, rp["lines"])
        return
    rng = ctx.rng
    stop_known = True    # uv_udp_recv_stop inside MMSG_CHUNK callbacks is always generated (fixed defect L23)
    agg = {}
    if uexe:
        ok = run_unit(ctx, uexe, list(unit_cases_systematic(range(0, 201) if not ctx.quick else
                                                            list(range(0, 70)) + [80, 99, 100, 101, 120, 159, 160, 161, 199, 200])),
                      "systematic")
        ok = ok and run_unit(ctx, uexe, [unit_case_random(rng) for _ in range(ctx.scale(5000, 100000))], "random")
        ctx.notes["unit_counts"] = "1..200 systematic (partial/EINTR/EAGAIN/ENOBUFS/other errno at every chunk index) + random"
    if sexe:
        cases = [list(c) for c in CORPUS] + [gen_sim_case(rng, stop_known, big=not ctx.quick) for _ in range(ctx.scale(2000, 40000))]
        run_sim_many(ctx, sexe, cases, agg)
        ctx.sample({"sim_program": cases[len(CORPUS)][:14]})
        ctx.notes["sim_events"] = agg
    if (ctx.broken or not lean_ok) and not ctx.violations:
        ctx.log("obligation broken; searching for a failing input with the monitors")
        srng = SplitMix(ctx.seed + 4242)
        n = 0
        if uexe:
            for _ in range(20):
                lines = [unit_case_random(srng) for _ in range(3000)]
                n += len(lines)
                if not run_unit(ctx, uexe, lines, "search", monitors_only=True) or ctx.violations:
                    break
        if sexe and not ctx.violations:
            scases = [gen_sim_case(srng, stop_known, big=True) for _ in range(ctx.scale(6000, 20000))]
            n += len(scases)
            run_sim_many(ctx, sexe, scases, {}, monitors_only=True)
        ctx.notes["search"] = f"{n} extra cases run against the monitors after an obligation broke"
    ctx.cov["rule"] = ("unit: every count 0..200 with all-success, and per chunk index a partial result, EINTR runs, "
                       "EAGAIN/ENOBUFS/other errno; plus random outcome scripts; non-trivial = count > 20 with a "
                       "non-uniform schedule, distinct by call log. sim: corpus + random programs (1-3 handles, v4/v6, "
                       "connected/unconnected, RECVMMSG or not, scripted callbacks, outcome schedules, receive queues); "
                       "non-trivial = EAGAIN/partial batch/error status/ECANCELED/mmsg chunks/ENOBUFS/ENOMEM occurred, "
                       "distinct by implementation log hash")
