"""Shared machinery of C01 / C02 / C03: program generator, runner (implementation = harness/sim_loop.c on
the freshly built libuv; model = `uvdriver loop`), line diff, and the property monitors.

The monitors work on the implementation's log only (plus the program text); they never look at the Lean
model.  Each returns a list of (sig, message).  See DESIGN.md §2.3/§2.4 and Appendix A for the vocabulary."""
import re, hashlib, json, shutil, os
from concurrent.futures import ThreadPoolExecutor
from vlib import *

U64 = 2 ** 64
INT_MAX = 2 ** 31 - 1
KINDS = ["timer", "idle", "prepare", "check", "async", "poll", "tcp", "udp", "pipe", "signal", "fs_event"]
WATCHERS = ("idle", "prepare", "check")
STARTABLE = ("timer", "idle", "prepare", "check", "poll", "tcp", "udp", "pipe", "signal", "fs_event")
STOPPABLE = ("timer", "idle", "prepare", "check", "poll", "udp", "signal", "fs_event")

# ------------------------------------------------------------------------------------------- generator
class Gen:
    """A program = config lines + callback table (`on <key> <occ> ops`) + main ops.
    bias: 'C01' all kinds, ref/unref, requests, loop_close at odd times; 'C02' closes from callbacks in the
    same phase / same poll batch, requests in flight at close; 'C03' watcher cross start/stop/unref,
    uv_stop, metrics, modes, EINTR."""
    def __init__(self, rng, bias, size):
        self.r, self.bias, self.size = rng, bias, size
        self.kinds = []          # kind of handle i (as far as main knows)
        self.maybe_closed = set()
        self.nreq_est = 0
        self.cfg, self.on, self.main = [], [], []
        # requests submitted without completion callback where the API allows it (monitor-only programs)
        self.nocb = rng.chance(1, 6)
        # init calls that fail (socket() refused, bad domain, descriptor unusable): monitor-only programs
        self.failinit = rng.chance(1, 6)

    def kind_weights(self):
        if self.bias == "C03":
            return ["timer"] * 4 + ["idle"] * 4 + ["prepare"] * 4 + ["check"] * 4 + ["async"] * 2 + ["poll"] * 3 + ["udp", "signal"]
        if self.bias == "C02":
            return ["timer"] * 3 + ["idle", "prepare", "check"] * 2 + ["async"] * 3 + ["poll"] * 4 + ["udp"] * 4 + ["pipe"] * 3 + ["tcp", "signal", "fs_event"]
        return ["timer"] * 3 + ["idle", "prepare", "check", "async", "poll"] * 2 + ["udp"] * 2 + ["tcp", "pipe", "signal", "fs_event"] * 2

    def tmo(self):
        r = self.r
        x = r.below(20)
        if x < 12: return r.below(12)
        if x < 17: return r.range(10, 60)
        if x < 19: return r.choice([2 ** 31 - 1, 2 ** 31, 2 ** 40])
        return r.choice([U64 - 1, U64 - 1000])
    def rep(self):
        return self.r.choice([0, 0, 0, 1, 2, 3, 5, 9])

    def pick(self, kinds=None, live=True):
        c = [i for i, k in enumerate(self.kinds) if (kinds is None or k in kinds) and not (live and i in self.maybe_closed)]
        if not c:
            return None
        return self.r.choice(c)

    def start_op(self, i):
        k = self.kinds[i]
        if k == "signal":    # persistent or one-shot watcher
            return f"start h{i} {self.r.choice([0, 0, 1])} 0"
        if k == "pipe":      # bind path of 1..140 characters (short ones fall back to the base name; > 108 is truncated by libuv)
            return f"start h{i} {self.r.choice([0, 0, 60, 100, 107, 108, 109, 120, 140])} 0"
        if k == "timer": return f"start h{i} {self.tmo()} {self.rep()}"
        if k == "poll": return f"start h{i} {self.r.choice([1, 1, 1, 2, 3, 3, 0, 5])} 0"
        return f"start h{i} 0 0"

    def req_op(self):
        """a request of one of the kinds that go through uv__work_submit or the io_uring ring: fs (read / write with buffer
        counts around IOV_MAX = 1024, stat, open, close), numeric getaddrinfo / getnameinfo, random"""
        r = self.r
        x = r.below(12)
        if x < 3: return f"fs write {r.choice([1, 3, 4, 5, 1024, 1025, 1025, 1500])}"
        if x < 5: return f"fs read {r.choice([1, 4, 5, 1024, 1025, 2000])}"
        if x < 8: return "fs " + r.choice(["stat", "open", "close", "stat", "open", "close", "stat missing", "open missing", "close bad"])
        if x < 9: return "getaddrinfo"
        if x < 10: return "getnameinfo"
        return "random"

    def build_fs_requests(self):
        """request kinds beyond uv_queue_work on both routes: the loop is (or is not, or too late) configured for io_uring;
        fs reads / writes around IOV_MAX buffers, stat / open / close, getaddrinfo / getnameinfo / random; uv_cancel on
        each (queued behind a running work item, in the ring, already done); submissions from callbacks; uv_loop_close
        while requests are outstanding"""
        r = self.r
        self.cfg += [f"config metrics {int(r.chance(1, 2))}", "config clock0 1000", f"config cblimit {r.range(15, 40)}"]
        self.kinds += ["timer"]
        self.main += ["op init timer"]
        if r.chance(1, 2): self.main.append(f"op start h0 {r.range(0, 4)} {r.choice([0, 0, 2])}")
        ring = r.below(4)          # 0: thread pool only; 1, 2: io_uring from the start; 3: configured after the first fs request
        if ring in (1, 2): self.main.append("op use_iouring")
        nq = 0
        for rnd in range(r.range(1, 3)):
            if r.chance(1, 2): self.main.append("op work"); nq += 1
            for _ in range(r.range(1, 5)):
                self.main.append("op " + self.req_op()); nq += 1
                if ring == 3 and r.chance(1, 2): self.main.append("op use_iouring"); ring = 4
                if r.chance(1, 3): self.main.append(f"op cancel r{r.below(nq)}")
            if r.chance(1, 3): self.main.append("op loop_close")
            if r.chance(1, 3): self.main.append("op alive")
            self.main.append("op run " + r.choice(["NOWAIT", "ONCE", "ONCE", "DEFAULT"]))
        for q in range(min(nq, 6)):
            if r.chance(1, 3):
                ops = [r.choice([self.req_op(), self.req_op(), f"cancel r{r.below(nq + 1)}", "alive", "close h0", "work", "stop_loop"])
                       for _ in range(r.range(1, 2))]
                self.on.append(f"on r{q} 0 " + " ; ".join(ops))
        if r.chance(1, 3): self.on.append("on h0 0 " + self.req_op() + " ; " + self.req_op())
        self.main += ["op close h0", "op run DEFAULT", "op run DEFAULT", "op loop_close"]
        return self.cfg + self.on + self.main

    def rand_op(self, in_cb, own=None):
        """one op; mostly legal given what the generator knows"""
        r = self.r
        for _ in range(20):
            x = r.below(100)
            b = self.bias
            if x < 22:
                i = self.pick(STARTABLE)
                if i is not None: return self.start_op(i)
            elif x < 34:
                i = own if (own is not None and r.chance(1, 3) and self.kinds[own] in STOPPABLE) else self.pick(STOPPABLE)
                if i is not None: return f"stop h{i}"
            elif x < 42:
                i = self.pick(live=not r.chance(1, 3))      # also on closing handles
                if i is not None: return f"{r.choice(['ref', 'unref', 'unref'])} h{i}"
            elif x < (56 if b == "C02" else 50):
                i = own if (own is not None and r.chance(1, 2)) else self.pick()
                if i is not None and (in_cb or r.chance(1, 2)):
                    self.maybe_closed.add(i)
                    return f"close h{i}"
            elif x < 62:
                i = self.pick(("async",))
                if i is not None: return f"async_send h{i}"
            elif x < 67:
                if r.chance(1, 4): return r.choice(["work_null", "reject getaddrinfo", "reject getnameinfo", "reject random"])
                if self.nocb and r.chance(1, 2): self.nreq_est += 1; return "work_nocb"
                self.nreq_est += 1
                if r.chance(1, 2): return self.req_op()
                return "work"
            elif x < (75 if b == "C02" else 71):
                i = self.pick(("udp",))
                if i is not None and r.chance(1, 6): return f"udp_send_bad h{i}"
                if i is not None and self.nocb and r.chance(1, 2): self.nreq_est += 1; return f"udp_send_nocb h{i}"
                if i is not None: self.nreq_est += 1; return f"udp_send h{i}"
            elif x < 74:
                if self.nreq_est: return f"cancel r{r.below(self.nreq_est + 1)}"
            elif x < (82 if b == "C03" else 77):
                return "stop_loop"
            elif x < 80:
                i = self.pick(("timer",))
                if i is not None: return r.choice([f"again h{i}", f"set_repeat h{i} {self.rep()}", f"due_in h{i}"])
            elif x < 84:
                if in_cb and r.chance(1, 3):     # long work in a callback, then the documented uv_update_time(): timers become overdue
                    return f"advance {r.range(1, 40)} ; update_time ; backend_timeout"
                return r.choice([f"advance {r.range(1, 30)}", "update_time", "now"])
            elif x < 90:
                i = self.pick(("poll",))
                if i is not None: return r.choice([f"make_readable h{i}", f"make_readable h{i}", f"drain h{i}", f"peer_reset h{i}"])
            elif x < 95:
                i = self.pick()
                g = ["alive", "backend_timeout", "backend_timeout"]
                if i is not None: g += [f"is_active h{i}", f"has_ref h{i}", f"is_closing h{i}"]
                return r.choice(g)
            elif x < 97 and self.failinit and r.chance(2, 3):
                return r.choice(["init_fail udp EMFILE", "init_fail udp ENFILE", "init_fail udp EAFNOSUPPORT", "init_fail udp ENOBUFS",
                                 "init_fail udp EINVAL", "init_fail tcp EMFILE", "init_fail tcp ENFILE", "init_fail tcp EINVAL",
                                 "init_fail poll EBADF", "init_fail poll EEXIST"])
            elif x < 97 and len(self.kinds) < 14:
                k = r.choice(self.kind_weights()); self.kinds.append(k)   # id is a guess when issued from a callback
                return f"init {k}"
            elif x < 98:
                i = self.pick(("udp", "pipe"))
                if i is not None and self.kinds[i] == "pipe": self.nreq_est += 1; return f"connect_bad h{i}"
                if i is not None: return f"bind h{i}"
            else:
                # malformed stream: illegal-but-defined ops
                i = self.pick(("timer",), live=False)
                if i is not None: return r.choice([f"start h{i} 1 1", f"again h{i}"])
        return "alive"

    def build_fs_traffic(self):
        """fs_event handles that do receive events; close / stop issued from inside fs_event callbacks (own, sibling,
        last watcher of the path).  Monitors only."""
        r = self.r
        self.cfg += [f"config metrics {int(r.chance(1, 2))}", "config clock0 1000", f"config cblimit {r.range(10, 30)}"]
        n = r.range(1, 3)
        for i in range(n):
            self.kinds.append("fs_event"); self.main.append("op init fs_event")
        extra = r.choice(["timer", "idle", "check", "async"])
        self.kinds.append(extra); self.main.append(f"op init {extra}")
        for i in range(n):
            self.main.append(f"op start h{i} 0 0")
        for i in range(n):
            for occ in range(2):
                if r.chance(2, 3):
                    tgt = r.below(n)
                    ops = [r.choice([f"close h{i}", f"close h{tgt}", f"stop h{i}", f"stop h{tgt}", f"start h{tgt} 0 0", "alive", "touch"])
                           for _ in range(r.range(1, 3))]
                    self.on.append(f"on h{i} {occ} " + " ; ".join(ops))
        for _ in range(r.range(1, 3)):
            for _ in range(r.range(1, 2)): self.main.append("op touch")
            self.main.append("op run " + r.choice(["NOWAIT", "NOWAIT", "ONCE"]))
        for i in range(len(self.kinds)):
            self.main.append(f"op close h{i}")
        self.main += ["op run NOWAIT", "op run NOWAIT", "op loop_close"]
        return self.cfg + self.on + self.main

    def build_udp_backlog(self):
        """udp handle whose sends queue up (the kernel answers EAGAIN first), receiving a datagram at the same time:
        POLLIN and POLLOUT arrive in one event; the recv callback closes / stops / sends.  Monitors only."""
        r = self.r
        nsend = r.choice([1, 2, 3, 10, 12])
        self.cfg += [f"config metrics {int(r.chance(1, 2))}", "config clock0 1000", f"config cblimit {r.range(20, 40)}",
                     f"config eagain {r.range(1, 3)}"]
        self.kinds += ["udp", r.choice(["timer", "check", "idle"])]
        self.main += ["op init udp", f"op init {self.kinds[1]}", "op start h0 0 0"]
        for _ in range(nsend):
            self.main.append("op " + r.choice(["udp_send h0", "udp_send h0", "udp_send_nocb h0"]))
        self.main.append("op dgram h0")
        acts = ["close h0", "close h0", "stop h0", "udp_send h0", "alive", "close h0 ; close h1"]
        for occ in range(2):
            if r.chance(3, 4):
                self.on.append(f"on h0 {occ} " + r.choice(acts))
        for q in range(nsend):
            if r.chance(1, 4):
                self.on.append(f"on r{q} 0 " + r.choice(["close h0", "udp_send h0", "dgram h0", "alive"]))
        for _ in range(r.range(1, 3)):
            self.main.append("op run " + r.choice(["NOWAIT", "ONCE"]))
            if r.chance(1, 3): self.main.append("op dgram h0")
        self.main += ["op close h0", "op close h1", "op run NOWAIT", "op run NOWAIT", "op loop_close"]
        return self.cfg + self.on + self.main

    def build_signal_burst(self):
        """signals really arrive: single ones and bursts beyond the capacity of the (shrunk) signal pipe while the loop is not
        run; stop / close from the signal callback and from main; every close_cb must arrive within bounded iterations"""
        r = self.r
        nsig = r.range(1, 2)
        n = r.choice([1, 2, 5, 40, 200, 256, 257, 300, 600])
        self.cfg += [f"config metrics {int(r.chance(1, 2))}", "config clock0 1000", f"config cblimit {r.range(20, 40)}", "config sigpipe 4096"]
        if r.chance(1, 4): self.cfg.append("config default_loop 1")
        self.kinds += ["signal"] * nsig + ["timer"]
        self.main += ["op init signal"] * nsig + ["op init timer", f"op start h{nsig} {r.range(1, 9)} {r.choice([0, 3])}"]
        for i in range(nsig):
            self.main.append(f"op start h{i} {r.choice([0, 0, 1])} 0")
            if n > 30 or r.chance(1, 2):
                self.on.append(f"on h{i} {0 if n > 30 else r.below(2)} " + r.choice([f"stop h{i}", f"close h{i}", f"close h{i}", f"stop h{i} ; start h{i} 0 0 ; stop h{i}"]))
        self.main.append(f"op raise {n}")
        if r.chance(1, 2): self.main.append(f"op {r.choice(['close', 'stop'])} h{r.below(nsig)}")
        for _ in range(r.range(1, 3)):
            self.main.append("op run " + r.choice(["NOWAIT", "ONCE"]))
            if r.chance(1, 3): self.main.append(f"op raise {r.choice([1, 2, 300] if n > 30 else [1, 2, 3])}")   # big bursts only when the callbacks stop the handle
            if r.chance(1, 3): self.main.append(f"op close h{r.below(nsig)}")
        for i in range(len(self.kinds)):
            self.main.append(f"op close h{i}")
        self.main += ["op run DEFAULT", "op run DEFAULT", "op loop_close"]
        return self.cfg + self.on + self.main

    def build_failing_submissions(self):
        """request-submitting calls that fail synchronously (allocation failure injected into libuv's allocator, EBADF / ENOTCONN
        refusals, NULL work_cb, rejected names) while other requests are in flight or not"""
        r = self.r
        self.cfg += [f"config metrics {int(r.chance(1, 2))}", "config clock0 1000", f"config cblimit {r.range(10, 25)}"]
        self.kinds += ["pipe", "udp", "tcp", "timer", "pipe"]
        self.main += ["op init pipe", "op init udp", "op init tcp", "op init timer", "op init pipe", f"op start h3 {r.range(1, 6)} {r.choice([0, 2])}"]
        if r.chance(2, 3): self.main.append("op open h0")
        fails = ["fail write h0", "fail write h4", "fail udp_send h1", "fail getaddrinfo", "fail fs_stat", "fail shutdown h2", "fail shutdown h4",
                 "work_null", "udp_send_bad h1", "reject getaddrinfo", "reject random", "reject getnameinfo"]
        inflight = ["work", "udp_send h1", "connect_bad h4", "work"]
        for _ in range(r.range(2, 6)):
            if r.chance(1, 2): self.main.append("op " + r.choice(inflight))
            self.main.append("op " + r.choice(fails))
            if r.chance(1, 4): self.main.append("op run " + r.choice(["NOWAIT", "ONCE"]))
        self.on.append("on h3 0 " + " ; ".join(r.choice(fails) for _ in range(r.range(1, 3))))
        if r.chance(1, 2): self.on.append("on r0 0 " + r.choice(fails))
        self.main += ["op run ONCE", "op loop_close"]
        for i in range(len(self.kinds)):
            self.main.append(f"op close h{i}")
        self.main += ["op run DEFAULT", "op run DEFAULT", "op loop_close"]
        return self.cfg + self.on + self.main

    def build_processes(self):
        """child processes: several children reaped in one pass; closes from the exit callback, from other callbacks and from
        main, in every order, handles freed in their close callback"""
        r = self.r
        n = r.range(2, 4)
        self.cfg += [f"config metrics {int(r.chance(1, 2))}", "config clock0 1000", f"config cblimit {r.range(15, 30)}"]
        self.kinds += ["timer"]
        self.main += ["op init timer", f"op start h0 {r.range(1, 5)} {r.choice([0, 0, 3])}"]
        for i in range(n):
            self.kinds.append("process"); self.main.append(f"op spawn {r.choice([0, 0, 1, 7])}")
        order = list(range(1, n + 1))
        for k in range(len(order) - 1, 0, -1):
            j = r.below(k + 1); order[k], order[j] = order[j], order[k]
        for i in range(1, n + 1):
            if r.chance(1, 4): self.on.append(f"on h{i} 0 close h{r.range(1, n)}")
        if r.chance(1, 2): self.on.append("on h0 0 " + " ; ".join(f"close h{j}" for j in order[:r.range(1, n)]))
        self.main.append("op run " + r.choice(["NOWAIT", "ONCE"]))
        for j in order:
            self.main.append(f"op close h{j}")
            if r.chance(2, 3): self.main.append("op run NOWAIT")
        self.main += ["op close h0", "op run DEFAULT", "op run DEFAULT", "op loop_close"]
        return self.cfg + self.on + self.main

    def build_async_threads(self):
        """uv_async_send from a second thread that is still inside the call (after its wake-up write) while the loop thread
        consumes the wake-up and closes the handle — from its own callback, another callback, or main"""
        r = self.r
        self.cfg += [f"config metrics {int(r.chance(1, 2))}", "config clock0 1000", f"config cblimit {r.range(10, 25)}"]
        self.kinds += ["async", "async", "timer"]
        self.main += ["op init async", "op init async", "op init timer"]
        if r.chance(1, 2): self.main.append(f"op start h2 {r.range(0, 3)} 0")
        self.on.append("on h0 0 " + r.choice(["close h0", "close h0", "close h0 ; close h1", "async_send h1", "alive"]))
        if r.chance(1, 2): self.on.append("on h1 0 " + r.choice(["close h0", "close h1", "close h1 ; close h0"]))
        if r.chance(1, 3): self.on.append("on h2 0 close h0")
        self.main.append("op async_send_thread h0")
        if r.chance(1, 3): self.main.append("op async_send h1")
        if r.chance(1, 4): self.main.append("op close h0")
        self.main.append("op run " + r.choice(["NOWAIT", "ONCE"]))
        for i in range(3):
            self.main.append(f"op close h{i}")
        self.main += ["op run DEFAULT", "op run DEFAULT", "op loop_close"]
        return self.cfg + self.on + self.main

    def build_timer_pass(self):
        """several timers due in the same uv__run_timers pass (already collected into its ready queue); the callback of an
        earlier one closes / stops / restarts later ones and itself — one-shot, repeating, zero timeout"""
        r = self.r
        n = r.range(2, 5)
        self.cfg += [f"config metrics {int(r.chance(1, 2))}", f"config clock0 {r.choice([1000, 5])}", f"config cblimit {r.range(12, 30)}"]
        self.kinds += ["timer"] * n
        self.main += ["op init timer"] * n
        for i in range(n):
            self.main.append(f"op start h{i} {r.choice([0, 0, 1, 2, 3])} {r.choice([0, 0, 1, 4])}")
        for i in range(n):
            if r.chance(3, 4):
                later = [j for j in range(n) if j != i]
                ops = []
                for _ in range(r.range(1, 3)):
                    j = r.choice(later)
                    ops.append(r.choice([f"close h{j}", f"close h{j}", f"stop h{j}", f"stop h{j} ; start h{j} 0 0", f"close h{i}", f"again h{j}"]))
                self.on.append(f"on h{i} {r.below(2)} " + " ; ".join(ops))
        self.main.append(f"op advance {r.range(3, 9)}")
        for _ in range(r.range(1, 3)):
            self.main.append("op run " + r.choice(["DEFAULT", "ONCE", "NOWAIT", "ONCE"]))
            if r.chance(1, 2): self.main.append(f"op advance {r.range(1, 6)}")
        for i in range(n):
            self.main.append(f"op close h{i}")
        self.main += ["op run DEFAULT", "op run DEFAULT", "op loop_close"]
        return self.cfg + self.on + self.main

    def build_stream_writes(self):
        """stream writes on a connected pipe whose peer never reads: small writes the kernel accepts at once (callback owed,
        in write_completed_queue) together with large ones that stay queued, then uv_close in the same tick or later"""
        r = self.r
        self.cfg += [f"config metrics {int(r.chance(1, 2))}", "config clock0 1000", f"config cblimit {r.range(12, 30)}"]
        self.kinds += ["pipe", "timer"]
        self.main += ["op init pipe", "op init timer", "op open h0"]
        if r.chance(1, 2): self.main.append(f"op start h1 {r.range(0, 3)} 0")
        sizes = [r.choice([1, 10, 100, 4096]) for _ in range(r.range(0, 3))] + [r.choice([1 << 20, 2 << 20, 4 << 20]) for _ in range(r.range(0, 2))] + \
                [r.choice([1, 50]) for _ in range(r.range(0, 2))]
        for sz in sizes or [1]:
            self.main.append(f"op write h0 {sz}")
        if r.chance(1, 2): self.main.append("op close h0")
        if r.chance(1, 3): self.on.append("on r0 0 " + r.choice(["close h0", "write h0 7", "alive"]))
        if r.chance(1, 3): self.on.append("on h1 0 close h0")
        self.main.append("op run " + r.choice(["NOWAIT", "ONCE"]))
        self.main += ["op close h0", "op close h1", "op run NOWAIT", "op run NOWAIT", "op loop_close"]
        return self.cfg + self.on + self.main

    def build_connects(self):
        """tcp connects whose completion is decided by the kernel's answers: getsockopt(SO_ERROR) says EINPROGRESS on the first
        wake-up(s) (spurious), then the real result (success / ECONNREFUSED); closes while the connect is pending"""
        r = self.r
        n = r.range(1, 3)
        self.cfg += [f"config metrics {int(r.chance(1, 2))}", "config clock0 1000", f"config cblimit {r.range(12, 30)}",
                     f"config soerror {r.choice([0, 1, 1, 2, 3])}"]
        self.kinds += ["tcp"] * n + ["timer"]
        self.main += ["op init tcp"] * n + ["op init timer"]
        if r.chance(1, 2): self.main.append(f"op start h{n} {r.range(0, 4)} {r.choice([0, 2])}")
        for i in range(n):
            # the kernel's answer to connect(2): in progress (listener / nobody listening), or at once: an outright failure
            # (uv_tcp_connect returns it: no request in flight) / ECONNREFUSED (deferred by libuv)
            x = r.below(9)
            self.main.append(f"op connect h{i}" + (" refused" if x < 2 else " " + r.choice(["unreach", "addrnotavail", "acces", "hostunreach"]) if x < 5
                                                    else " sync_refused" if x < 6 else ""))
            if x in (2, 3, 4) and r.chance(1, 3): self.main.append("op alive")
            if r.chance(1, 4): self.main.append(f"op close h{i}")
        for q in range(n):
            if r.chance(1, 2): self.on.append(f"on r{q} 0 " + r.choice([f"close h{q}", "alive", f"close h{r.below(n)}", "work"]))
        if r.chance(1, 3): self.on.append(f"on h{n} 0 close h{r.below(n)} ; alive")
        for _ in range(r.range(2, 4)):
            self.main.append("op run " + r.choice(["NOWAIT", "ONCE", "NOWAIT"]))
            if r.chance(1, 3): self.main.append("op alive")
        self.main.append("op loop_close")
        for i in range(len(self.kinds)):
            self.main.append(f"op close h{i}")
        self.main += ["op run DEFAULT", "op run DEFAULT", "op loop_close"]
        return self.cfg + self.on + self.main

    def build_udp_queue_close(self):
        """several udp sends in one tick (only the first goes out at once, the others wait in write_queue), then uv_close in the
        same tick / from the first send callback / after one iteration: every send reports UV_ECANCELED unless its datagram
        really went out (the destination socket counts them)"""
        r = self.r
        self.cfg += [f"config metrics {int(r.chance(1, 2))}", "config clock0 1000", f"config cblimit {r.range(15, 30)}"]
        if r.chance(1, 4): self.cfg.append(f"config eagain {r.range(1, 2)}")
        self.kinds += ["udp", r.choice(["timer", "check", "idle"])]
        self.main += ["op init udp", f"op init {self.kinds[1]}"]
        if r.chance(1, 2): self.main.append("op start h0 0 0")
        nsend = r.range(2, 6)
        for _ in range(nsend): self.main.append("op udp_send h0")
        where = r.below(4)
        if where == 0: self.main.append("op close h0")
        elif where == 1: self.on.append("on r0 0 " + r.choice(["close h0", "udp_send h0 ; udp_send h0 ; close h0"]))
        elif where == 2: self.main += ["op run NOWAIT", "op udp_send h0", "op udp_send h0", "op udp_send h0", "op close h0"]
        else: self.on.append(f"on r{r.below(nsend)} 0 udp_send h0 ; close h0")
        self.main.append("op run " + r.choice(["NOWAIT", "ONCE", "DEFAULT"]))
        self.main += ["op close h0", "op close h1", "op run DEFAULT", "op run DEFAULT", "op loop_close"]
        return self.cfg + self.on + self.main

    def build_poll_traffic(self):
        """poll handles with traffic: readable / writable / both, and a pending socket error (peer gone with unread data:
        EPOLLERR, reported to the callback as UV_EBADF) — the callback restarts / stops / closes the same handle and siblings"""
        r = self.r
        n = r.range(1, 3)
        self.cfg += [f"config metrics {int(r.chance(1, 2))}", "config clock0 1000", f"config cblimit {r.range(6, 16)}"]
        self.kinds += ["poll"] * n + [r.choice(["timer", "check", "idle"])]
        self.main += ["op init poll"] * n + [f"op init {self.kinds[n]}"]
        if r.chance(1, 2): self.main.append(f"op start h{n} {r.range(0, 3)} 0")
        for i in range(n):
            self.main.append(f"op start h{i} {r.choice([1, 1, 2, 3, 5, 9])} 0")
            if r.chance(1, 4): self.main.append(f"op unref h{i}")
        for i in range(n):
            x = r.below(5)
            if x < 3: self.main.append(f"op peer_reset h{i}")
            elif x < 4: self.main.append(f"op make_readable h{i}")
        for i in range(n):
            for occ in range(2):
                if r.chance(3, 4):
                    j = r.below(n)
                    ops = [r.choice([f"start h{i} {r.choice([1, 1, 2, 3])} 0", f"start h{i} 1 0", f"stop h{i}", f"close h{i}", f"start h{j} 1 0", f"stop h{j}",
                                     f"close h{j}", "alive", f"is_active h{i}", f"drain h{i}", f"peer_reset h{j}", f"ref h{i}", f"unref h{i}"])
                           for _ in range(r.range(1, 3))]
                    self.on.append(f"on h{i} {occ} " + " ; ".join(ops))
        for _ in range(r.range(1, 3)):
            self.main.append("op run " + r.choice(["NOWAIT", "ONCE", "ONCE", "DEFAULT"]))
            if r.chance(1, 3): self.main.append(f"op peer_reset h{r.below(n)}")
            if r.chance(1, 3): self.main.append("op alive")
        if r.chance(1, 3): self.main.append("op loop_close")
        for i in range(len(self.kinds)):
            self.main.append(f"op close h{i}")
        self.main += ["op run DEFAULT", "op run DEFAULT", "op loop_close"]
        return self.cfg + self.on + self.main

    def build_timer_population(self):
        """many timers (8..24: a heap three or more levels deep) started in random order, then stops / closes / restarts of
        arbitrary ones (inner nodes, deep leaves, the root) before the loop decides how long to block"""
        r = self.r
        n = r.range(8, 24)
        self.cfg += [f"config metrics {int(r.chance(1, 3))}", "config clock0 1000", f"config cblimit {r.range(30, 60)}"]
        self.kinds += ["timer"] * n
        self.main += ["op init timer"] * n
        skew = r.chance(1, 2)
        if skew:
            # started in level order with due times that already respect the heap order: one subtree of the root holds the late
            # timers, the other the early ones (so the last node, which replaces a removed one, may belong far above its new place)
            big = r.below(2)
            def val(i):
                d, j = 0, i + 1
                while j > 1: j //= 2; d += 1
                top = i + 1
                while top > 3: top //= 2
                if i == 0: return r.range(1, 5)
                return (200 if (top - 2) == big else 10) + 40 * d + r.below(30)
            tmo = [val(i) for i in range(n)]
        else:
            tmo = [r.range(1, 400) if r.chance(4, 5) else r.choice([0, 2 ** 31, 2 ** 40]) for _ in range(n)]
        for i in range(n):
            self.main.append(f"op start h{i} {tmo[i]} {r.choice([0, 0, 0, 7]) if not skew else 0}")
        deep = [i for i in range(n) if i >= 3] if skew else list(range(n))
        for rnd in range(r.range(1, 3)):
            for _ in range(r.range(1, max(2, n // 2) if not skew else 3)):
                i = r.choice(deep)
                self.main.append("op " + r.choice([f"stop h{i}", f"stop h{i}", f"close h{i}", f"start h{i} {r.range(1, 400)} 0", f"again h{i}"]))
            self.main.append("op backend_timeout")
            self.main.append("op run " + r.choice(["ONCE", "ONCE", "NOWAIT", "DEFAULT"]))
            if r.chance(1, 2): self.on.append(f"on h{r.below(n)} 0 stop h{r.below(n)} ; close h{r.below(n)} ; backend_timeout")
        if r.chance(1, 2): self.on.append(f"on h{r.below(n)} 0 stop_loop")
        for i in range(n):
            self.main.append(f"op close h{i}")
        self.main += ["op run DEFAULT", "op run DEFAULT", "op loop_close"]
        return self.cfg + self.on + self.main

    def build_embedder(self):
        """embedder style: I/O watchers started / changed outside uv_run (registrations pending in watcher_queue) with and
        without armed timers, uv_backend_timeout() before and after the loop applied them"""
        r = self.r
        self.cfg += [f"config metrics {int(r.chance(1, 2))}", "config clock0 1000", f"config cblimit {r.range(8, 20)}"]
        ios = [r.choice(["poll", "udp", "tcp", "pipe", "fs_event"]) for _ in range(r.range(1, 3))]
        self.kinds += ["timer"] + ios
        self.main += ["op init timer"] + [f"op init {k}" for k in ios]
        if r.chance(3, 4): self.main.append(f"op start h0 {r.choice([0, 3, 17, 500, 2 ** 31, 2 ** 40])} {r.choice([0, 2])}")
        for _ in range(r.range(2, 5)):
            i = r.range(1, len(ios))
            self.main.append("op " + r.choice([self.start_op(i), self.start_op(i), f"stop h{i}", f"unref h{i}", f"ref h{i}", f"unref h0", "ref h0"]))
            if r.chance(2, 3): self.main.append("op backend_timeout")
            if r.chance(1, 4): self.main.append("op run NOWAIT"); self.main.append("op backend_timeout")
        if r.chance(1, 2):
            i = r.range(1, len(ios))
            self.on.append(f"on h0 0 {self.start_op(i)} ; backend_timeout ; stop h{i} ; backend_timeout")
            self.main.append("op run ONCE")
        for i in range(len(self.kinds)):
            self.main.append(f"op close h{i}")
        self.main += ["op backend_timeout", "op run DEFAULT", "op run DEFAULT", "op loop_close"]
        return self.cfg + self.on + self.main

    def build_stop_then_run(self):
        """uv_stop() from a callback inside a ONCE / NOWAIT run, then further runs (all modes) with work outstanding"""
        r = self.r
        self.cfg += [f"config metrics {int(r.chance(1, 2))}", "config clock0 1000", f"config cblimit {r.range(8, 20)}"]
        k = r.choice(["timer", "idle", "prepare", "check"])
        self.kinds += [k, "timer"]
        self.main += [f"op init {k}", "op init timer", "op start h0 0 " + ("1" if k == "timer" else "0"), f"op start h1 {r.range(0, 5)} {r.range(1, 4)}"]
        self.on.append("on h0 0 stop_loop")
        if r.chance(1, 2): self.on.append("on h0 2 stop_loop ; " + self.rand_op(True, 0))
        if r.chance(1, 2): self.main.append("op work")
        self.main.append("op run " + r.choice(["ONCE", "NOWAIT", "ONCE", "DEFAULT"]))
        for _ in range(r.range(1, 3)):
            if r.chance(1, 3): self.main.append("op " + self.rand_op(False))
            self.main.append("op run " + r.choice(["DEFAULT", "ONCE", "NOWAIT"]))
        self.main += ["op close h0", "op close h1", "op run DEFAULT", "op run DEFAULT", "op loop_close"]
        return self.cfg + self.on + self.main

    def build(self):
        r = self.r
        if r.chance(1, 12 if self.bias != "C02" else 6):
            return self.build_fs_traffic()
        if r.chance(1, 14 if self.bias != "C02" else 7):
            return self.build_udp_backlog()
        if self.bias != "C02" and r.chance(1, 12):
            return self.build_stop_then_run()
        if self.bias == "C03" and r.chance(1, 8):
            return self.build_embedder()
        if r.chance(1, 8 if self.bias == "C03" else 24):
            return self.build_timer_population()
        if self.bias == "C02" and r.chance(1, 7):
            return self.build_udp_queue_close()
        if r.chance(1, 8 if self.bias == "C02" else 16):
            return self.build_signal_burst()
        if self.bias == "C01" and r.chance(1, 8):
            return self.build_failing_submissions()
        if r.chance(1, 6 if self.bias == "C01" else 12):
            return self.build_fs_requests()
        if r.chance(1, 8 if self.bias == "C01" else 14):
            return self.build_poll_traffic()
        if self.bias in ("C01", "C02") and r.chance(1, 10):
            return self.build_connects()
        if self.bias == "C02" and r.chance(1, 8):
            return self.build_processes()
        if self.bias == "C02" and r.chance(1, 8):
            return self.build_timer_pass()
        if self.bias == "C02" and r.chance(1, 9):
            return self.build_stream_writes()
        if self.bias == "C02" and r.chance(1, 14):
            return self.build_async_threads()
        self.cfg.append(f"config metrics {int(r.chance(1, 2))}")
        self.default_loop = r.chance(1, 4)
        if self.default_loop:     # the loop under test is uv_default_loop(), looked up afresh at every use
            self.cfg.append("config default_loop 1")
        self.cfg.append(f"config clock0 {r.choice([1000, 1000, 5, 123456789])}")
        self.cfg.append(f"config cblimit {r.range(12, 30 + 10 * self.size)}")
        if r.chance(1, 3 if self.bias == 'C03' else 8):
            # completely full epoll batches (1024 entries): the follow-up non-blocking re-poll, up to the 48-round limit
            ks = list(range(0, 60)) if r.chance(1, 4) else sorted({r.below(14) for _ in range(r.range(1, 5))})
            self.cfg.append("config full " + " ".join(map(str, ks)))
        if r.chance(1, 3 if self.bias == 'C03' else 6):
            self.cfg.append("config eintr " + " ".join(f"{r.below(25)}:{r.below(15)}" for _ in range(r.range(1, 4))))
        if r.chance(1, 3):       # fs requests of this program take the io_uring route
            self.main.append("op use_iouring")
        n = r.range(2, 4 + self.size)
        heartbeat = r.chance(4, 5)
        for i in range(n):
            k = "timer" if (i == 0 and heartbeat) else r.choice(self.kind_weights())
            self.kinds.append(k); self.main.append(f"op init {k}")
        if heartbeat:
            self.main.append(f"op start h0 {r.range(0, 8)} {r.range(1, 9)}")
        if self.bias == "C03":
            wk = r.choice(WATCHERS)
            for _ in range(r.range(2, 3)):
                self.kinds.append(wk); self.main.append(f"op init {wk}")
                self.main.append(f"op start h{len(self.kinds) - 1} 0 0")
        for _ in range(r.range(1, 3 + 2 * self.size)):
            self.main.append("op " + self.rand_op(False))
        # callback table
        nh0 = len(self.kinds)
        keys = []
        for i in range(nh0):
            for occ in range(3):
                keys.append(("h", i, occ))
            keys.append(("c", i, 0))
        for q in range(6):
            keys.append(("r", q, 0))
        nscripts = r.range(2, 4 + 3 * self.size)
        for _ in range(nscripts):
            key, i, occ = r.choice(keys)
            own = i if key == "h" else None
            ops = [self.rand_op(True, own) for _ in range(r.range(1, 3))]
            if self.bias == "C03" and key == "h" and self.kinds[i] in WATCHERS and r.chance(2, 3):
                # watcher cross-stop inside its own phase: stop / close / restart a sibling in the same list
                # (the next one to be called, or one already called), and itself
                sib = [j for j, k in enumerate(self.kinds) if k == self.kinds[i] and j != i]
                if sib:
                    j = r.choice(sib)
                    ops.append(r.choice([f"stop h{j}", f"stop h{j}", f"close h{j}", f"stop h{j} ; start h{j} 0 0", f"stop h{i} ; start h{i} 0 0"]))
            if self.bias == "C02" and r.chance(1, 2):
                # close in the same phase / batch: this handle's callback closes itself and a sibling of its kind
                sib = [j for j, k in enumerate(self.kinds) if key == "h" and k == self.kinds[i] and j != i]
                if key == "h": ops.append(f"close h{i}")
                if sib: ops.append(f"close h{r.choice(sib)}")
            self.on.append(f"on {key}{i} {occ} " + " ; ".join(ops))
        # deferred connect errors: delivered by the pending phase, or cancelled by a close issued before it
        for i, k in enumerate(self.kinds[:nh0]):
            if k == "pipe" and r.chance(2, 3):
                self.main.append(f"op connect_bad h{i}")
                if r.chance(1, 2):
                    self.maybe_closed.add(i); self.main.append(f"op close h{i}")
        # same-batch readiness
        for i, k in enumerate(self.kinds[:nh0]):
            if k == "poll" and r.chance(2, 3): self.main.append(f"op make_readable h{i}")
            if k == "async" and r.chance(1, 2): self.main.append(f"op async_send h{i}")
        for _ in range(r.range(1, 2 + self.size)):
            self.main.append("op run " + r.choice(["DEFAULT", "DEFAULT", "ONCE", "ONCE", "NOWAIT"]))
            for _ in range(r.below(4)):
                self.main.append("op " + self.rand_op(False))
            if r.chance(1, 8) or (self.default_loop and r.chance(1, 2)): self.main.append("op loop_close")   # refused closes, then more ops
        if r.chance(1, 5):
            # uv_loop_close while only requests are outstanding (every handle closed and delivered, work still owed)
            for i in range(len(self.kinds) + 1):
                self.main.append(f"op close h{i}")
            self.main.append("op run NOWAIT")
            self.main.append("op " + r.choice(["work", "work", "udp_send_bad h0", "work_null"]))
            self.main.append("op loop_close")
        if r.chance(5, 6):
            for i in range(len(self.kinds) + 1):
                self.main.append(f"op close h{i}")
            self.main.append("op run DEFAULT")
            if r.chance(1, 2): self.main.append("op run DEFAULT")
            self.main.append("op loop_close")
        return self.cfg + self.on + self.main


def gen_program(rng, bias, size=1):
    return Gen(rng, bias, size).build()


# ------------------------------------------------------------------------------------------- log parsing
OBS_RE = re.compile(r"obs alive=(\d) ah=(-?\d+) ar=(-?\d+) stop=(\d) nh=(\d+) now=(\d+) pq=(\S+)(.*)")
POLL_RE = re.compile(r"env poll iter=(\d+) timeout=(-?\d+) clock=(\d+) done=(\d+) ->(.*)")

def parse_obs(l):
    m = OBS_RE.match(l)
    if not m:
        return None
    hs = {}
    for w in m.group(8).split():
        mm = re.fullmatch(r"h(\d+)=([A-])([R-])([C-])", w)
        if not mm:
            return None          # truncated / corrupt line (the harness died while printing)
        hs[int(mm.group(1))] = mm.group(2) + mm.group(3) + mm.group(4)
    return dict(alive=int(m.group(1)), ah=int(m.group(2)), ar=int(m.group(3)), stop=int(m.group(4)),
                nh=int(m.group(5)), now=int(m.group(6)), pq=[] if m.group(7) == "-" else m.group(7).split(","), hs=hs)


class Mon:
    """single pass over the implementation log with independent bookkeeping"""
    def __init__(self, log, rc, err):
        self.log, self.rc, self.err = log, rc, err
        self.v = {"C01": [], "C02": [], "C03": []}
        self.stats = {"callbacks": 0, "ops_in_cb": 0, "polls": 0, "iterations": 0, "bad_ops": 0, "ops": 0,
                      "close_from_cb": 0, "close_same_phase": 0, "eintr": 0, "deadlock": 0, "ebusy": 0,
                      "alive_in_close_phase": 0, "timeout_checked": 0, "timeout_lenient": 0, "runs": 0}
        self.kinds_used = set()
        self.cbkinds = set()

    def bad(self, prop, sig, msg, i):
        self.v[prop].append((sig, f"{msg} (log line {i + 1}: `{self.log[i] if i < len(self.log) else ''}`)"))

    def run(self):
        log = self.log
        H = {}            # id -> dict(kind, closing, dead)
        Rq = {}           # id -> dict(kind, h, owed, cancelled, sync)
        T = {}            # timer bookkeeping id -> dict(active, due, rep, hascb)
        ninit = nreq = 0
        depth = 0
        cbstack = []      # (kind, id)
        last_obs = None
        prev_obs_for_op = None
        in_run = None     # dict(mode, stop_at_start, polls, top, stop_seen, ...)
        self.cp = None        # closing phase: set of handles in the chain detached by uv__run_closing_handles
        truncated = False
        self.vclock = None
        self.stop_ops = 0         # uv_stop() calls since the previous uv_run() returned
        self.wq_pending = None    # watcher_queue non-empty at the last uv_backend_timeout() call
        self.work_fifo = []       # submitted, not cancelled work requests in pool order
        self.P = {}               # poll handle -> started (True / False / None = inside its error callback, before any call on it)
        self.sink = None          # datagrams received by the destination socket so far
        self.sent_ok = 0          # udp send callbacks that reported success
        self.route = {}           # request -> ring | pool | now (what libuv chose; `res rN route=` line before the op line)
        self.eagain = any(l.startswith("env sendm") for l in log)
        pipes_bound = set()
        i = 0
        n = len(log)
        while i < n:
            l = log[i]
            if l.startswith("obs closed"):
                if "restored" not in l:
                    self.bad("C01", "loop-close-fd-leak", "descriptor table not restored after uv_loop_close", i)
                i += 1; continue
            if l.startswith("obs "):
                o = parse_obs(l)
                if o is None:
                    self.bad("C01", "obs-unparsable", "unparsable obs", i); i += 1; continue
                self.check_obs(o, H, Rq, self.cp, i)
                if self.vclock is None: self.vclock = o["now"]
                if in_run is not None and o["stop"]:
                    self.note_stop(in_run, cbstack)
                last_obs = o
                i += 1; continue
            if l.startswith("op "):
                self.stats["ops"] += 1
                if depth: self.stats["ops_in_cb"] += 1
                m = re.match(r"op (.*) -> (ret (-?\d+)|bad-op)$", l)
                if not m:
                    self.bad("C01", "op-unparsable", "unparsable op line", i); i += 1; continue
                text, ret = m.group(1).split(), (int(m.group(3)) if m.group(3) is not None else None)
                nxt = parse_obs(log[i + 1]) if i + 1 < n and log[i + 1].startswith("obs alive") else None
                if ret is None:
                    self.stats["bad_ops"] += 1
                    if last_obs and nxt and nxt != last_obs:
                        self.bad("C01", "bad-op-changed-state", "harness refused the op but the observation changed", i)
                    i += 1; continue
                o0 = last_obs
                op = text[0]
                hid = int(text[1][1:]) if len(text) > 1 and re.fullmatch(r"h\d+", text[1]) else None
                if op in ("start", "stop", "close") and hid in self.P:
                    # uv_poll_start(events != 0) makes the handle active, uv_poll_start(0) / uv_poll_stop / uv_close inactive
                    self.P[hid] = (op == "start" and ret == 0 and int(text[2]) != 0)
                if op == "init":
                    if text[1] == "poll": self.P[ninit] = False
                    H[ninit] = dict(kind=text[1], closing=False, dead=False); self.kinds_used.add(text[1])
                    if text[1] == "timer": T[ninit] = dict(active=False, due=0, rep=0, hascb=False)
                    ninit += 1
                elif op == "spawn":
                    H[ninit] = dict(kind="process", closing=False, dead=False); self.kinds_used.add("process"); ninit += 1
                elif op == "fail":
                    # a request-submitting call that fails must leave the request accounting untouched
                    self.stats["failed_submissions"] = self.stats.get("failed_submissions", 0) + 1
                    if ret >= 0:
                        self.bad("C01", "fail-ret", f"`{' '.join(text)}` returned {ret}, an error was expected", i)
                    if o0 and nxt and (o0["ar"], o0["ah"], o0["alive"], o0["nh"]) != (nxt["ar"], nxt["ah"], nxt["alive"], nxt["nh"]):
                        self.bad("C01", "failed-submission-registered", f"the failed `{' '.join(text)}` changed the loop: active_reqs {o0['ar']} -> {nxt['ar']}, "
                                 f"active_handles {o0['ah']} -> {nxt['ah']}, alive {o0['alive']} -> {nxt['alive']}", i)
                elif op == "init_fail":
                    # a failed init leaves no trace: same handle count in uv_walk, same counters, same liveness
                    want = {"EMFILE": -24, "ENFILE": -23, "EAFNOSUPPORT": -97, "ENOBUFS": -105, "EINVAL": -22, "EBADF": -9}.get(text[2])
                    if text[1] == "poll" and text[2] != "EBADF": want = -17
                    self.stats["failed_inits"] = self.stats.get("failed_inits", 0) + 1
                    if ret != want:
                        self.bad("C01", "init-fail-ret", f"failing {text[1]} init returned {ret}, expected {want}", i)
                    if o0 and nxt and (o0["nh"], o0["ah"], o0["ar"], o0["alive"], o0["hs"]) != (nxt["nh"], nxt["ah"], nxt["ar"], nxt["alive"], nxt["hs"]):
                        self.bad("C01", "failed-init-left-trace", f"a failed uv_{text[1]}_init changed the loop: uv_walk count {o0['nh']} -> {nxt['nh']}, "
                                 f"active_handles {o0['ah']} -> {nxt['ah']}, alive {o0['alive']} -> {nxt['alive']}", i)
                elif op == "close" and hid in H:
                    H[hid]["closing"] = True; H[hid]["iters_since_close"] = 0
                    if depth:
                        self.stats["close_from_cb"] += 1
                        if cbstack and cbstack[-1][0] == H[hid]["kind"]: self.stats["close_same_phase"] += 1
                    if hid in T: T[hid]["active"] = False
                elif op in ("work", "work_nocb"):
                    Rq[nreq] = dict(kind="work", h=None, owed=True, cancelled=False, nocb=(op == "work_nocb"), grace=False, await_poll=False)
                    self.work_fifo.append(nreq); nreq += 1
                elif op in ("fs", "getaddrinfo", "getnameinfo", "random"):
                    # registered by the accepted submission (thread pool or io_uring ring), exactly one callback owed
                    Rq[nreq] = dict(kind="work", api=op, h=None, owed=True, cancelled=False, nocb=False, grace=False, await_poll=False,
                                    route=self.route.get(nreq))
                    self.kinds_used.add("req:" + op + ("/ring" if self.route.get(nreq) == "ring" else ""))
                    if ret != 0:
                        self.bad("C01", "submission-ret", f"`{' '.join(text)}` returned {ret}", i)
                    if self.route.get(nreq) == "pool": self.work_fifo.append(nreq)
                    nreq += 1
                elif op == "use_iouring":
                    if ret != 0:
                        self.bad("C01", "configure-ret", f"uv_loop_configure(UV_LOOP_USE_IO_URING_SQPOLL) returned {ret}", i)
                elif op == "udp_send_nocb":
                    Rq[nreq] = dict(kind="udp", h=hid, owed=True, cancelled=False, sync=False, nocb=True, grace=True, polls=0); nreq += 1
                elif op == "stop_loop":
                    self.stop_ops += 1
                elif op == "start" and hid in H and H[hid]["kind"] == "pipe" and ret == 0:
                    pipes_bound.add(hid)
                elif op == "udp_send":
                    inflight = any(q["owed"] and q["h"] == hid for q in Rq.values())
                    own_cb = any(k == "udp_send" and Rq.get(r_, {}).get("h") == hid for k, r_ in cbstack)
                    Rq[nreq] = dict(kind="udp", h=hid, owed=True, cancelled=False, sync=not inflight and not own_cb); nreq += 1
                elif op == "write":
                    if ret == 0:      # stream write: completes with 0, or UV_ECANCELED when the stream is closed first
                        Rq[nreq] = dict(kind="write", h=hid, owed=True, cancelled=False, sync=False, size=int(text[2])); nreq += 1
                elif op == "connect_bad":
                    Rq[nreq] = dict(kind="connect", h=hid, owed=True, cancelled=False); nreq += 1
                elif op == "connect":
                    sync_fail = {"unreach": -101, "addrnotavail": -99, "acces": -13, "hostunreach": -113}.get(text[-1])
                    if ret == 0:      # a real connect: completes with 0 (listener) / ECONNREFUSED (no listener) once the kernel says so
                        Rq[nreq] = dict(kind="connect", h=hid, owed=True, cancelled=False, real=(-111 if text[-1] in ("refused", "sync_refused") else 0)); nreq += 1
                    if sync_fail is not None:
                        # connect(2) failed outright: uv_tcp_connect returns the error, no request is in flight, nothing stays registered
                        self.stats["connect_sync_failures"] = self.stats.get("connect_sync_failures", 0) + 1
                        if ret != sync_fail:
                            self.bad("C01", "connect-fail-ret", f"uv_tcp_connect returned {ret} although connect(2) failed with {-sync_fail}", i)
                        if o0 and nxt and (o0["ar"], o0["ah"], o0["alive"], o0["nh"]) != (nxt["ar"], nxt["ah"], nxt["alive"], nxt["nh"]):
                            self.bad("C01", "failed-submission-registered", f"the failed `{' '.join(text)}` changed the loop: active_reqs {o0['ar']} -> {nxt['ar']}, "
                                     f"active_handles {o0['ah']} -> {nxt['ah']}, alive {o0['alive']} -> {nxt['alive']}", i)
                elif op in ("work_null", "udp_send_bad", "reject"):
                    want = -89 if op == "udp_send_bad" else -22
                    if ret != want:
                        self.bad("C01", "sync-reject-ret", f"{op} returned {ret}, expected {want}", i)
                    if o0 and nxt and (o0["ar"], o0["ah"], o0["alive"]) != (nxt["ar"], nxt["ah"], nxt["alive"]):
                        self.bad("C01", "sync-reject-registered", f"a synchronously rejected request changed the loop counters", i)
                elif op == "cancel":
                    rid = int(text[1][1:])
                    if ret == 0 and rid in Rq:
                        Rq[rid]["cancelled"] = True
                        if rid in self.work_fifo: self.work_fifo.remove(rid)
                        if Rq[rid].get("nocb"): Rq[rid]["await_poll"] = True
                    if ret not in (0, -16):
                        self.bad("C01", "cancel-ret", f"uv_cancel returned {ret}", i)
                elif op in ("ref", "unref") and o0 and nxt and hid in o0["hs"] and hid in nxt["hs"]:
                    f0, f1 = o0["hs"][hid], nxt["hs"][hid]
                    if f0[0] != f1[0]:
                        self.bad("C01", f"{op}-changed-active", f"uv_{op} changed uv_is_active of h{hid}", i)
                    if f1[1] != ("R" if op == "ref" else "-"):
                        self.bad("C01", f"{op}-no-effect", f"uv_has_ref wrong after uv_{op}", i)
                    if f0[1] == f1[1] and (o0["ah"], o0["alive"], o0["hs"]) != (nxt["ah"], nxt["alive"], nxt["hs"]):
                        self.bad("C01", f"{op}-not-idempotent", f"repeated uv_{op} changed the loop state", i)
                elif op == "start" and hid in T and nxt:
                    if ret == 0:
                        a, b = int(text[2]), int(text[3])
                        T[hid].update(active=True, due=min(nxt["now"] + a, U64 - 1), rep=b, hascb=True)
                    elif ret != -22 or not H[hid]["closing"]:
                        self.bad("C03", "timer-start-ret", f"uv_timer_start returned {ret}", i)
                elif op == "stop" and hid in T:
                    T[hid]["active"] = False
                elif op == "again" and hid in T and nxt:
                    t = T[hid]
                    exp = 0 if t["hascb"] else -22
                    if ret != exp:
                        self.bad("C03", "timer-again-ret", f"uv_timer_again returned {ret}, expected {exp}", i)
                    if ret == 0 and t["rep"] and not H[hid]["closing"]:
                        t.update(active=True, due=min(nxt["now"] + t["rep"], U64 - 1))
                    if ret == 0 and not t["rep"] and o0 and (o0["hs"], o0["ah"], o0["alive"]) != (nxt["hs"], nxt["ah"], nxt["alive"]):
                        # uv_timer_again on a non-repeating timer does nothing: a pending one-shot timer stays outstanding
                        self.bad("C01", "timer-again-changed-state", f"uv_timer_again(h{hid}) with repeat 0 changed the loop: "
                                 f"h{hid} {o0['hs'].get(hid)} -> {nxt['hs'].get(hid)}, active_handles {o0['ah']} -> {nxt['ah']}", i)
                elif op == "set_repeat" and hid in T:
                    T[hid]["rep"] = int(text[2])
                elif op == "due_in" and hid in T and o0 and T[hid]["active"]:
                    if ret != max(0, T[hid]["due"] - o0["now"]):
                        self.bad("C03", "due-in", f"uv_timer_get_due_in {ret}, expected {max(0, T[hid]['due'] - o0['now'])}", i)
                elif op == "advance":
                    self.vclock = (self.vclock or 0) + int(text[1])
                    if in_run is not None: in_run["adv_since_poll"] = True
                elif op == "alive" and nxt and ret != nxt["alive"]:
                    self.bad("C01", "alive-getter", "uv_loop_alive() differs from the observation", i)
                elif op == "backend_timeout" and o0:
                    self.top_cb_kind = cbstack[0][0] if cbstack else None
                    self.check_backend_timeout(ret, o0, H, Rq, T, i)
                elif op in ("is_active", "has_ref", "is_closing") and o0 and hid in o0["hs"]:
                    want = o0["hs"][hid][{"is_active": 0, "has_ref": 1, "is_closing": 2}[op]] != "-"
                    if ret != int(want):
                        self.bad("C01", "getter", f"uv_{op} returned {ret}", i)
                elif op == "loop_close":
                    busy = any(q["owed"] for q in Rq.values()) or any(not h["dead"] for h in H.values())
                    if ret == -16: self.stats["ebusy"] += 1
                    if (ret == -16) != busy or ret not in (0, -16):
                        self.bad("C01", "loop-close-ret", f"uv_loop_close returned {ret} while busy={busy} "
                                 f"(requests owed={sum(q['owed'] for q in Rq.values())}, handles not closed={sum(not h['dead'] for h in H.values())})", i)
                    if ret == 0 and not (i + 1 < n and log[i + 1].startswith("obs closed")):
                        self.bad("C01", "loop-close-obs", "no `obs closed` after successful uv_loop_close", i)
                elif op == "run":
                    r = in_run
                    in_run = None
                    self.cp = None
                    self.end_dispatch(Rq, run_end=True)
                    if r is not None and nxt:
                        self.finish_run(r, ret, nxt, H, i)
                    self.stop_ops = 0
                i += 1; continue
            if l.startswith("run "):
                self.stats["runs"] += 1
                in_run = dict(mode=l.split()[1], stop_at_start=bool(last_obs and last_obs["stop"]), top=[], stop_limit=None,
                              obs_at_start=last_obs, closing_at_start={h for h, d in H.items() if d["closing"] and not d["dead"]},
                              start_line=i, stop_seen=bool(last_obs and last_obs["stop"]), cur_iter=None, first_iter=None,
                              adv_since_poll=False, udp_since_poll=False,
                              udp_owed_at_start=any(q["owed"] and q["kind"] in ("udp", "connect", "write") for q in Rq.values()),
                              # uv_run starts with uv__update_time when the loop is dead, or in DEFAULT mode when alive and not stopped
                              fresh=not (last_obs and (not last_obs["alive"] or (l.split()[1] == "DEFAULT" and not last_obs["stop"]))))
                i += 1; continue
            if l.startswith("env poll"):
                m = POLL_RE.match(l)
                if not m:
                    self.bad("C03", "poll-unparsable", "unparsable env poll", i); i += 1; continue
                it, tmo, clock, done = (int(m.group(k)) for k in (1, 2, 3, 4))
                res = m.group(5).split()
                self.stats["polls"] += 1
                if res == ["EINTR"]: self.stats["eintr"] += 1
                if res == ["DEADLOCK"]: self.stats["deadlock"] += 1; truncated = True
                self.end_dispatch(Rq)
                for q in Rq.values():
                    if q.get("await_poll"): q["await_poll"] = False; q["grace"] = True
                    if q["kind"] == "udp" and q.get("nocb") and q["owed"]:
                        q["polls"] += 1
                for _ in range(min(done, len(self.work_fifo))):
                    q = Rq[self.work_fifo.pop(0)]
                    if q.get("nocb"): q["grace"] = True      # processed by uv__work_done when the async watcher is dispatched
                if any(t.startswith("async:") for t in res):
                    for q in Rq.values():
                        if q.get("nocb") and q["kind"] == "work" and q["grace"]: q["seen_async"] = True
                if in_run is None:
                    self.bad("C03", "poll-outside-run", "poller called outside uv_run", i)
                else:
                    self.cp = None
                    self.on_poll(in_run, it, tmo, clock, res, last_obs, H, Rq, T, i)
                i += 1; continue
            if l.startswith("cb "):
                w = l.split()
                kind, ident = w[1], w[2]
                self.stats["callbacks"] += 1
                self.cbkinds.add(kind)
                num = int(ident[1:])
                if depth != 0:
                    self.bad("C02", "nested-callback", "callback invoked from inside another callback / API call", i)
                if in_run is None:
                    self.bad("C03", "callback-outside-run", "user callback outside uv_run", i)
                if ident[0] == "h":
                    h = H.get(num)
                    if h is None:
                        self.bad("C02", "cb-unknown-handle", "callback for unknown handle", i)
                    elif h["dead"]:
                        self.bad("C02", "callback-after-close-cb", f"callback `{kind}` for h{num} after its close_cb ran", i)
                    elif kind == "close":
                        if not h["closing"]:
                            self.bad("C02", "close-cb-without-close", f"close_cb for h{num} without uv_close", i)
                        owed = [r_ for r_, q in Rq.items() if q["owed"] and q["h"] == num and not q.get("nocb")]
                        if owed:
                            self.bad("C02", "close-cb-before-requests", f"close_cb of h{num} before the callbacks of its requests {owed}", i)
                        if len(w) > 3 and w[3] != "--C":
                            self.bad("C01", "flags-in-close-cb", f"handle flags inside close_cb are {w[3]} (expected inactive, unreferenced, closing)", i)
                        if self.cp is None:
                            self.cp = {x for x, d in H.items() if d["closing"] and not d["dead"]}
                        h["dead"] = True
                    else:
                        if h["closing"] and kind in ("timer", "idle", "prepare", "check", "async", "poll", "signal", "fs_event", "recv"):
                            # silence after uv_close: the handle's own callback must not run once uv_close has returned
                            self.bad("C02", "callback-after-close", f"`{kind}` callback of h{num} ran after uv_close(h{num}) had returned "
                                     "(before its close_cb)", i)
                        if kind == "poll" and num in self.P and len(w) > 3 and int(w[3]) < 0:
                            # an error is reported once and watching ends with it; whether the handle still looks active inside
                            # the callback is not specified, what the callback then does with the handle is
                            self.P[num] = None
                            self.stats["poll_error_callbacks"] = self.stats.get("poll_error_callbacks", 0) + 1
                        if kind == "timer" and num in T:
                            t = T[num]
                            nxt = parse_obs(log[i + 1]) if i + 1 < n else None
                            if t["rep"] and nxt: t.update(active=True, due=min(nxt["now"] + t["rep"], U64 - 1))
                            else: t["active"] = False
                else:
                    q = Rq.get(num)
                    status = int(w[3])
                    if q is None or not q["owed"]:
                        self.bad("C02", "request-cb-twice", f"callback for request r{num} that is not outstanding", i)
                    else:
                        q["owed"] = False
                        if q["kind"] == "work":
                            want = 0 if not q["cancelled"] else (-3003 if q.get("api") in ("getaddrinfo", "getnameinfo") else -125)
                            if status != want:
                                self.bad("C02", "work-status", f"{kind} callback status {status}, cancelled={q['cancelled']} (expected {want})", i)
                            if kind != q.get("api", "work"):
                                self.bad("C02", "request-cb-kind", f"request r{num} was submitted as {q.get('api', 'work')} but completed as {kind}", i)
                        elif q["kind"] == "connect":
                            hh = H.get(q["h"])
                            closing = bool(hh and hh["closing"])
                            if status != (-125 if closing else q.get("real", -22)):
                                self.bad("C02", "connect-status", f"connect_cb status {status} (handle closing={closing}): a pending connect "
                                         "must be failed with UV_ECANCELED by uv_close, with its own error otherwise", i)
                            if closing and hh and not hh["dead"] and self.cp is None:
                                self.cp = {x for x, d in H.items() if d["closing"] and not d["dead"]}
                        else:
                            hh = H.get(q["h"])
                            if status not in (0, -125) or (status == -125 and not (hh and hh["closing"])) or (status == -125 and q["sync"] and not self.eagain):
                                self.bad("C02", "udp-send-status", f"send_cb status {status} (handle closing={hh and hh['closing']}, sent synchronously={q['sync']})", i)
                            if hh and hh["closing"] and not hh["dead"] and self.cp is None:
                                self.cp = {x for x, d in H.items() if d["closing"] and not d["dead"]}
                            if kind == "udp_send" and status == 0:
                                # success means the datagram went out: a send still queued when uv_close cancelled it must
                                # report UV_ECANCELED, never 0
                                self.sent_ok += 1
                                self.stats["udp_status_vs_wire"] = self.stats.get("udp_status_vs_wire", 0) + 1
                                if self.sink is not None and self.sent_ok > self.sink:
                                    self.bad("C02", "send-success-not-transmitted", f"send_cb of r{num} reported status 0, but only {self.sink} datagram(s) "
                                             f"ever reached the destination for {self.sent_ok} successful sends (handle closing={bool(hh and hh['closing'])}): "
                                             "a request cancelled by uv_close must complete with UV_ECANCELED", i)
                            if q["kind"] == "write" and status == 0 and q.get("size", 0) >= (1 << 20) and hh and hh["closing"]:
                                # the peer never reads: a write of >= 1 MiB cannot have been transmitted completely
                                self.bad("C02", "write-success-not-transmitted", f"write_cb of r{num} ({q['size']} bytes, peer never reads) reported "
                                         "status 0 after uv_close: a request cancelled by uv_close must complete with UV_ECANCELED", i)
                if depth == 0 and kind in ("idle", "prepare", "check", "close", "timer"):
                    self.end_dispatch(Rq)
                if kind == "close" and ident[0] == "h":
                    for q in Rq.values():
                        if q["kind"] == "udp" and q.get("nocb") and q["h"] == num: q["owed"] = False; q["grace"] = False
                    if H.get(num, {}).get("kind") == "pipe":
                        pipes_bound.discard(num)
                if in_run is not None:
                    if kind not in ("close", "udp_send", "connect", "write"):
                        self.cp = None
                    # observations after the end-of-iteration (or run-start) uv__update_time show the exact loop time
                    if kind in ("timer", "idle", "prepare") or in_run["cur_iter"] is None: in_run["fresh"] = True
                    if kind in ("udp_send", "connect", "write"): in_run["udp_since_poll"] = True
                    in_run["top"].append(("cb", kind, num, i))
                    self.on_top_cb(in_run, kind, num, i)
                cbstack.append((kind, num)); depth += 1
                i += 1; continue
            if l == "endcb":
                depth -= 1
                if cbstack:
                    k_, n_ = cbstack.pop()
                    if k_ == "poll" and self.P.get(n_, 0) is None: self.P[n_] = False     # the error callback left the handle alone: stopped
                i += 1; continue
            if l.startswith("res "):
                # resources_released: after the close callback of an fs_event handle its kernel watch is gone unless
                # another started fs_event handle still watches the (single) directory
                mg = re.match(r"res h(\d+) sigaction=(\w+)$", l)
                if mg:
                    # resources_released: once the last watcher of the signal is closed, the process-wide disposition is the
                    # default again (one-shot and persistent watchers, closed before or after the signal fired)
                    others = [h for h, f in (last_obs or {"hs": {}})["hs"].items() if H.get(h, {}).get("kind") == "signal" and f[0] == "A"]
                    self.stats["sigaction_checked"] = self.stats.get("sigaction_checked", 0) + 1
                    if not others and mg.group(2) != "dfl":
                        self.bad("C02", "signal-handler-left", f"after close_cb of signal h{mg.group(1)} no signal watcher is active but libuv's "
                                 "process-wide signal handler is still installed", i)
                    i += 1; continue
                me = re.match(r"res h(\d+) epoll=(-?\d+)$", l)
                if me:
                    # resources_released: the kernel interest set of the loop no longer holds the handle's open file
                    # (the application keeps the descriptor / a dup of it open, so the kernel does not clean up by itself)
                    self.stats["epoll_interest_checked"] = self.stats.get("epoll_interest_checked", 0) + 1
                    if int(me.group(2)) > 0:
                        self.bad("C02", "epoll-registration-left", f"after close_cb of h{me.group(1)} its descriptor is still registered "
                                 f"in the loop's epoll instance ({me.group(2)} entry)", i)
                    i += 1; continue
                mk = re.match(r"res r(\d+) sink=(\d+)$", l)
                if mk:
                    self.sink = int(mk.group(2))     # datagrams that have reached the destination so far (send_cb printed next)
                    i += 1; continue
                mr = re.match(r"res r(\d+) route=(\w+)$", l)
                if mr:
                    self.route[int(mr.group(1))] = mr.group(2)
                    self.stats["route_" + mr.group(2)] = self.stats.get("route_" + mr.group(2), 0) + 1
                    i += 1; continue
                mw = re.match(r"res wq=(\d)$", l)
                if mw:
                    self.wq_pending = mw.group(1) == "1"      # state at the uv_backend_timeout() call printed next
                    i += 1; continue
                ms = re.match(r"res h(\d+) sock=(\d+)$", l)
                if ms:
                    # resources_released: a closed pipe leaves no socket file behind (uv_close unlinks at once)
                    want = len([h for h in pipes_bound if not H[h]["closing"]])
                    self.stats["sock_files_checked"] = self.stats.get("sock_files_checked", 0) + 1
                    if int(ms.group(2)) != want:
                        self.bad("C02", "pipe-socket-file-left", f"after close_cb of pipe h{ms.group(1)} the scratch directory holds {ms.group(2)} "
                                 f"socket file(s); {want} bound pipe(s) are still open", i)
                    i += 1; continue
                m = re.match(r"res h(\d+) iw=(-?\d+)$", l)
                if m and last_obs is not None:
                    others = [h for h, f in last_obs["hs"].items() if H.get(h, {}).get("kind") == "fs_event" and f[0] == "A"]
                    want = 1 if others else 0
                    self.stats["fs_watch_checked"] = self.stats.get("fs_watch_checked", 0) + 1
                    if int(m.group(2)) != want:
                        self.bad("C02", "fs-event-watch-leak", f"after close_cb of fs_event h{m.group(1)} the loop's inotify descriptor holds "
                                 f"{m.group(2)} kernel watch(es); {want} expected (other active watchers: {others})", i)
                i += 1; continue
            if l.startswith("env sendm") or l.startswith("env soerror") or l.startswith("env iouring") or l.startswith("env connect"):
                i += 1; continue
            if l.startswith("REJECTED-REQUEST-CALLBACK"):
                # a request whose submitting call returned an error is not in flight: it never gets a callback
                # (in particular not a UV_ECANCELED one from uv_close)
                self.bad("C02", "callback-for-rejected-request", f"a request whose submission had failed got its callback (`{l}`)"
                         + (" while its handle was being closed" if self.cp is not None or any(d["closing"] and not d["dead"] for d in H.values()) else ""), i)
                self.bad("C01", "callback-for-rejected-request", f"a request whose submission had failed got its callback (`{l}`)", i)
                i += 1; continue
            if l.startswith("RUNAWAY-CALLBACKS"):
                self.bad("C03", "runaway-phase", "a loop phase kept invoking callbacks far beyond the program's callback limit "
                         "(uv_stop was requested long ago): the phase never terminates", i)
                i += 1; continue
            if l.startswith("REENTRANT-CALLBACK"):
                self.bad("C02", "close-reentrant", "uv_close invoked a callback re-entrantly", i)
                i += 1; continue
            self.bad("C01", "unknown-line", "unexpected line in implementation log", i)
            i += 1
        # end of log
        if self.rc != 0:
            kind = "hang" if self.rc == -999 else "sanitizer-or-crash"
            tail = " | ".join(self.err.strip().splitlines()[:6])[:600]
            for p in ("C01", "C02", "C03"):
                self.v[p].append((kind, f"harness exited {self.rc}: {tail}"))
        self.final = dict(H=H, Rq=Rq, truncated=truncated)
        return self

    def end_dispatch(self, Rq, run_end=False):
        """requests without completion callback: once the batch in which uv__work_done saw them is over (or, for udp
        sends, after a full iteration / the handle's close) they must not count any more"""
        for q in Rq.values():
            if not q.get("nocb") or not q["owed"]:
                continue
            if q["kind"] == "work" and q["grace"] and q.get("seen_async"):
                q["owed"] = False; q["grace"] = False
            if q["kind"] == "udp" and not self.eagain and (q["polls"] >= 2 or (run_end and q["polls"] >= 1)):
                q["owed"] = False; q["grace"] = False

    # ---- C01: the liveness formula on every observation
    def check_obs(self, o, H, Rq, close_phase, i):
        cnt = sum(1 for f in o["hs"].values() if f[0] == "A" and f[1] == "R" and f[2] == "-")
        if o["ah"] != cnt:
            self.bad("C01", "active-handles-count", f"loop->active_handles={o['ah']} but {cnt} handles are active, referenced and not closing", i)
        owed_hi = sum(1 for q in Rq.values() if q["owed"])
        owed = sum(1 for q in Rq.values() if q["owed"] and not q.get("grace"))      # grace: completion may or may not have been processed yet
        if not (owed <= o["ar"] <= owed_hi):
            self.bad("C01", "active-reqs-count", f"loop->active_reqs.count={o['ar']} but {owed}"
                     + (f"..{owed_hi}" if owed_hi != owed else "") + " requests are outstanding (callback owed / completion not yet processed)", i)
        for h, st in self.P.items():
            f = o["hs"].get(h)
            if f is None or st is None: continue
            if (f[0] == "A") != st:
                self.bad("C01", "poll-active-vs-started", f"uv_is_active(h{h}) = {int(f[0] == 'A')} but the poll handle is "
                         + ("started (uv_poll_start succeeded; no stop, close or reported error since)" if st else "not started (stopped / closed / error reported)"), i)
        live = {h for h, d in H.items() if not d["dead"]}
        if o["nh"] != len(live) or set(o["hs"]) != live:
            self.bad("C01", "handle-queue", f"uv_walk sees {o['nh']} handles, {len(live)} have no close_cb yet", i)
        for h, f in o["hs"].items():
            d = H.get(h)
            if d is None: continue
            if (f[2] == "C") != d["closing"]:
                self.bad("C01", "is-closing", f"uv_is_closing(h{h}) = {f[2] == 'C'} but uv_close called = {d['closing']}", i)
            if d["closing"] and f[0] == "A":
                self.bad("C01", "active-while-closing", f"h{h} ({d['kind']}) is still active after uv_close returned", i)
        pending_close = {h for h, d in H.items() if d["closing"] and not d["dead"]}
        strict = pending_close - (close_phase or set())
        lo = cnt > 0 or owed > 0 or bool(strict)
        hi = cnt > 0 or owed_hi > 0 or bool(pending_close)
        if close_phase and pending_close & close_phase and not lo and not o["alive"]:
            # known deviation: uv__run_closing_handles has detached the batch, uv_loop_alive() ignores it
            self.stats["alive_in_close_phase"] += 1
            self.bad("C01", "alive-zero-inside-closing-batch", f"uv_loop_alive()=0 inside the closing phase while handles "
                     f"{sorted(pending_close & close_phase)} of the batch being delivered still await their close_cb", i)
        elif (o["alive"] == 1 and not hi and o["ah"] == 0 and o["ar"] == 0 and o["pq"]
              and all(p != "?" and H.get(int(p[1:]), {}).get("kind") == "udp" for p in o["pq"])
              and not any(q["owed"] for q in Rq.values())):
            # known deviation: a udp watcher re-fed into the pending queue by uv__udp_sendmsg called from uv__udp_io
            self.stats["alive_spurious_udp_feed"] = self.stats.get("alive_spurious_udp_feed", 0) + 1
            self.bad("C01", "alive-only-spurious-udp-pending-feed", f"uv_loop_alive()=1 with nothing owed; pending_queue holds only "
                     f"the io watcher of udp handle(s) {o['pq']}", i)
        elif o["alive"] != int(lo) and o["alive"] != int(hi):
            self.bad("C01", "alive-but-nothing-owed" if o["alive"] else "dead-but-work-owed", f"uv_loop_alive()={o['alive']} but active&ref&!closing handles={cnt}, requests owed={owed}, "
                     f"close callbacks owed={sorted(pending_close)}", i)

    def finish_run(self, r, ret, nxt, H, i):
        if ret != nxt["alive"]:
            npoll0 = sum(1 for t in r["top"] if t[0] == "poll")
            if (r["mode"] == "DEFAULT" and ret == 1 and npoll0 == 0 and r["stop_seen"] and not r["stop_at_start"]
                    and r["top"] and all(t[0] == "cb" and t[1] == "timer" for t in r["top"])):
                # known deviation: uv_stop inside the initial timer pass; `r` was computed before the pass
                self.bad("C01", "run-return-stale-after-initial-timers", "uv_run(UV_RUN_DEFAULT) returned 1 but uv_loop_alive() is 0: "
                         "uv_stop was called in the initial timer pass, the loop body never ran, the liveness value is stale", i)
            else:
                self.bad("C01", "run-return", f"uv_run returned {ret} but uv_loop_alive() is {nxt['alive']} right after", i)
        if nxt["stop"]:
            self.bad("C03", "stop-not-cleared", "stop flag still set after uv_run returned", i)
        if r["mode"] == "DEFAULT" and ret == 1 and (not r["stop_seen"] or self.stop_ops == 0):
            self.bad("C01", "default-returned-alive", "uv_run(UV_RUN_DEFAULT) returned non-zero although uv_stop() was not called "
                     "since the previous uv_run() returned", i)
        if ret == 1 and r["stop_at_start"] and self.stop_ops == 0 and not r["top"]:
            self.bad("C01", "run-skipped-stale-stop", f"uv_run({r['mode']}) returned at once with the loop alive: a uv_stop() from an earlier "
                     "uv_run() call was still remembered", i)
        npoll = sum(1 for t in r["top"] if t[0] == "poll")
        if r["stop_at_start"] and r["top"]:
            self.bad("C03", "stop-before-run", "uv_stop before uv_run: the loop still ran callbacks / polled", i)
        if npoll >= 1:
            late = [h for h in r["closing_at_start"] if h in H and not H[h]["dead"]]
            if late:
                self.bad("C02", "close-cb-missing", f"handles {late} were closing before uv_run and a full iteration ran, but close_cb was not delivered", i)
        self.check_phases(r, i, complete=True)

    # ---- C03
    def note_stop(self, r, cbstack):
        r["stop_seen"] = True
        if r["stop_limit"] is not None:
            return
        cur = r["cur_iter"]
        kind = cbstack[0][0] if cbstack else None
        if cur is None:
            # before the first poll of this run: initial timers => zero iterations; idle/prepare/pending => this iteration only
            r["stop_limit"] = ("first", kind)
        elif kind in ("idle", "prepare"):
            r["stop_limit"] = ("iter", cur + 1)
        elif kind in ("udp_send", "connect", "write"):
            r["stop_limit"] = ("iter", cur + 1)     # pending phase of the next iteration or late phase of this one
        else:
            r["stop_limit"] = ("iter", cur)

    def on_top_cb(self, r, kind, num, i):
        if r.get("await_cb") and kind not in ("idle", "prepare", "check", "close", "timer"):
            r["dispatched"] = True

    def expected_timeout(self, mode, o, obs_start, H, Rq, T):
        """(must_be_zero, value_if_not_zero, lenient)"""
        idle_now = any(H.get(h, {}).get("kind") == "idle" and f[0] == "A" for h, f in o["hs"].items())
        closing = any(d["closing"] and not d["dead"] and h not in (self.cp or ()) for h, d in H.items())
        zero = mode == "NOWAIT" or o["stop"] == 1 or idle_now or closing or (o["ah"] <= 0 and o["ar"] <= 0)
        self.zero_only_idle = idle_now and not (mode == "NOWAIT" or o["stop"] == 1 or closing or (o["ah"] <= 0 and o["ar"] <= 0))
        lenient = any(q["owed"] and q["kind"] in ("udp", "connect", "write") for q in Rq.values())
        if mode == "ONCE" and obs_start is not None:
            if any(H.get(h, {}).get("kind") == "idle" and f[0] == "A" for h, f in obs_start["hs"].items()):
                zero = True
        act = [t["due"] for h, t in T.items() if t["active"] and o["hs"].get(h, "---")[0] == "A"]
        val = -1 if not act else min(max(0, min(act) - o["now"]), INT_MAX)
        return zero, val, lenient

    def check_backend_timeout(self, ret, o, H, Rq, T, i):
        zero, val, lenient = self.expected_timeout("DEFAULT", o, None, H, Rq, T)
        wqp, self.wq_pending = self.wq_pending, None
        if wqp:
            self.stats["backend_timeout_wq_pending"] = self.stats.get("backend_timeout_wq_pending", 0) + 1
            if ret != 0:
                self.bad("C03", "backend-timeout-registrations-pending", f"uv_backend_timeout()={ret} while descriptor registrations "
                         "are still waiting to be applied (watcher_queue not empty): must be 0", i)
            return
        if wqp is False and not zero and not lenient and ret != val:
            self.bad("C03", "backend-timeout-api", f"uv_backend_timeout()={ret} with nothing waiting to be applied; nearest timer says {val}", i)
        if zero and ret != 0 and self.zero_only_idle and ret == val and self.top_cb_kind == "idle":
            # known deviation: uv__run_idle has detached the idle list; handles still waiting in the detached queue
            # are not seen by uv__backend_timeout when it is called from inside an idle callback
            self.bad("C03", "backend-timeout-inside-idle-phase", f"uv_backend_timeout()={ret} called from an idle callback while other idle "
                     "handles (not yet called in this phase) are active: must be 0", i)
        elif zero and ret != 0:
            self.bad("C03", "backend-timeout-api", f"uv_backend_timeout()={ret} while the loop must not block", i)
        elif not zero and ret not in (0, val) :
            self.bad("C03", "backend-timeout-api", f"uv_backend_timeout()={ret}, nearest timer says {val}", i)

    def on_poll(self, r, it, tmo, clock, res, o, H, Rq, T, i):
        first = r["cur_iter"] != it
        if first:
            # loop->time at the decision: observations printed after the end-of-iteration uv__update_time are
            # exact; otherwise the loop time is the virtual clock (the update read it, nothing advanced it since)
            o = dict(o)
            if not r["fresh"]:
                o["now"] = self.vclock
            amb = r["udp_since_poll"] and r["adv_since_poll"]
        if r["cur_iter"] is not None and it not in (r["cur_iter"], r["cur_iter"] + 1):
            self.bad("C03", "iteration-count", f"loop_count jumped from {r['cur_iter']} to {it}", i)
        if first:
            # close_cb within a bounded number of iterations: the closing phase of the iteration in which (or right after
            # which) uv_close was called delivers it; nothing may postpone it beyond the next one
            for h, d in H.items():
                if d["closing"] and not d["dead"]:
                    d["iters_since_close"] = d.get("iters_since_close", 0) + 1
                    if d["iters_since_close"] == 3:
                        self.bad("C02", "close-cb-missing", f"h{h} ({d['kind']}) was closed two full loop iterations ago and its close_cb "
                                 "has still not been delivered", i)
            self.stats["iterations"] += 1
            if r["cur_iter"] is not None and r["mode"] != "DEFAULT":
                self.bad("C03", "once-two-iterations", f"uv_run({r['mode']}) ran a second iteration", i)
            lim = r["stop_limit"]
            if lim is not None:
                if lim[0] == "first":
                    if lim[1] == "timer" or r["stop_at_start"]:
                        self.bad("C03", "stop-ignored", "uv_stop during the initial timer pass / before uv_run, but an iteration started", i)
                    r["stop_limit"] = ("iter", it)
                elif it > lim[1]:
                    self.bad("C03", "stop-ignored", f"uv_stop was called in iteration {lim[1]} but iteration {it} started", i)
            r["cur_iter"] = it
            if r["first_iter"] is None: r["first_iter"] = it
            r["iter_obs_start"] = r.get("next_iter_obs", r["obs_at_start"])
            zero, val, lenient = self.expected_timeout(r["mode"], o, r["obs_at_start"] if r["mode"] == "ONCE" else None, H, Rq, T)
            metrics = r.setdefault("metrics", None)
            want = 0 if zero else val
            r["T"] = want; r["base"] = o["now"]; r["npoll_iter"] = 0; r["amb"] = amb; r["dispatched"] = False
            # the pending queue (fed only by udp sends here) is invisible to the monitor: a udp send callback
            # since the last poll, or one still owed, makes "0" acceptable as well
            r["lenient"] = lenient or amb or r["udp_since_poll"] or (r["mode"] == "ONCE" and r["udp_owed_at_start"])
            r["prev_clock"] = None
        r["npoll_iter"] += 1
        want, base = r["T"], r["base"]
        k = r["npoll_iter"]
        self.stats["timeout_checked"] += 1
        ok = True
        if k == 1:
            # either the decided timeout, or 0 when the idle-time metric is configured
            r["first_tmo"] = tmo
            if tmo != want and not (tmo == 0 and (self.metrics or r["lenient"])):
                ok = False
            if tmo == want and self.metrics and want != 0:
                ok = False       # with UV_METRICS_IDLE_TIME the first poll must not block
        else:
            elapsed = (r["prev_clock"] - base) if r["prev_clock"] is not None else 0
            if want == -1:
                if tmo not in (-1, 0): ok = False
            elif want >= 0:
                if tmo == -1 or tmo > max(0, want - elapsed): ok = False
                if self.metrics and k == 2 and r["prev_empty"] and not r["lenient"] and tmo != want - elapsed and r["first_tmo"] == 0 and want > 0:
                    ok = False
        if k > 1 and r.get("dispatched") and tmo != 0:
            self.bad("C03", "block-after-dispatch", f"poll #{k} of iteration {it} asked for timeout {tmo} although callbacks of an earlier "
                     "batch of this iteration had already run (they may have called uv_stop, started timers or idle handles, closed handles): "
                     "a follow-up poll must not block", i)
        if r["lenient"] and tmo == 0: ok = True; self.stats["timeout_lenient"] += 1
        if r.get("amb"): ok = True       # loop time at the decision cannot be reconstructed from the log
        if not ok:
            sig = "timeout-rule" if k == 1 else "block-bound"
            self.bad("C03", sig, f"poll #{k} of iteration {it} got timeout {tmo}; rule says {want} (mode {r['mode']}, metrics={int(self.metrics)}, "
                     f"now={o['now']}, elapsed since decision={0 if k == 1 else elapsed})", i)
        self.vclock = clock
        r["fresh"] = False; r["adv_since_poll"] = False; r["udp_since_poll"] = False
        r["prev_clock"] = clock
        r["prev_empty"] = res == [] or res == ["EINTR"]
        r["await_cb"] = not r["prev_empty"]           # a callback right after this line was dispatched from this batch
        if "FULL" in res: self.stats["full_batches"] = self.stats.get("full_batches", 0) + 1
        r["top"].append(("poll", it, None, i))

    def check_phases(self, r, i, complete):
        """phase automaton over the top-level callbacks of one uv_run + once-per-iteration"""
        pos_of = {"idle": (2,), "prepare": (3,), "check": (6,), "close": (7,), "timer": (8,), "udp_send": (1, 4, 5, 7),
                  "connect": (1, 5, 7), "write": (1, 4, 5, 7)}
        states = {(0, False, 0)}
        percount = {}
        cur = None
        for t in r["top"]:
            if t[0] == "poll":
                sym, ps = "L", (4,)
                if cur != t[1]:
                    cur = t[1]
            else:
                sym = t[1]
                ps = pos_of.get(sym, (4,))
                if sym in WATCHERS:
                    # idle/prepare before the poll of the coming iteration, check after the poll of the current one
                    key = (sym, t[2], (cur if sym == "check" else (-1 if cur is None else cur + 1)))
                    percount[key] = percount.get(key, 0) + 1
                    if percount[key] == 2:
                        self.bad("C03", "watcher-twice", f"{sym} handle h{t[2]} called twice in one loop iteration", t[3])
            new = set()
            for (pos, seenL, it) in states:
                if it == 0 and pos == 0 and sym == "timer" and r["mode"] == "DEFAULT":
                    new.add((0, False, 0))
                for p in ps:
                    if it >= 1 and p >= pos and (p != 4 or sym == "L" or seenL) and (p <= 4 or seenL) and (p >= 4 or not seenL):
                        new.add((p, seenL or sym == "L", it))
                    if (it == 0 or seenL) and p <= 4 and (p != 4 or sym == "L") and (it == 0 or r["mode"] == "DEFAULT"):
                        new.add((p, sym == "L", it + 1))
            if not new:
                self.bad("C03", "phase-order", f"callback `{sym}` out of phase order in uv_run({r['mode']}): "
                         + " ".join(x[1] if x[0] == "cb" else "POLL" for x in r["top"][-12:] if x[3] <= t[3]), t[3])
                return
            states = new


def monitors(log, rc, err, metrics):
    if rc != 0 and log and not re.match(r"(obs alive=\d ah=-?\d+ ar=-?\d+ stop=\d nh=\d+ now=\d+ pq=\S+( h\d+=[A-][R-][C-])*|op .* -> (ret -?\d+|bad-op)|cb \w+ [hr]\d+( \S+)*|endcb|run \w+|env poll .*)$", log[-1]):
        log = log[:-1]          # the harness died while printing this line
    m = Mon(log, rc, err)
    m.metrics = metrics
    try:
        m.run()
    except Exception as e:       # a monitor crash must not pass silently
        import traceback
        for p in ("C01", "C02", "C03"):
            m.v[p].append(("monitor-crash", "monitor raised " + repr(e) + " " + traceback.format_exc()[-600:]))
    return m


def watcher_exactly_once(log):
    """C03 `watcher_once`, second half: a watcher that is active in every observation between the poll of
    iteration k and the poll of iteration k+1 gets exactly one callback there (check of k / idle+prepare of k+1)."""
    out = []
    kinds = {}
    ninit = 0
    seg = None           # dict(obs=[...], cbs={}, first=bool, start=i)
    def close_seg(seg, last, idx):
        if seg is None or not seg["obs"]:
            return
        ids = set.intersection(*[{h for h, f in o["hs"].items() if f[0] == "A" and f[2] == "-"} for o in seg["obs"]]) if seg["obs"] else set()
        for h in ids:
            k = kinds.get(h)
            if k not in WATCHERS: continue
            if seg["first"] and k == "check": continue        # before the first poll only idle/prepare run
            if last and k != "check": continue                # after the last poll only check runs
            c = seg["cbs"].get(h, 0)
            if c != 1:
                out.append(("watcher-not-once", f"{k} handle h{h} was active during its whole phase but was called {c} times (log lines {seg['start'] + 1}..{idx + 1})"))
    inrun = False
    depth = 0
    for i, l in enumerate(log):
        if l.startswith("op init ") and l.endswith("ret 0"):
            kinds[ninit] = l.split()[2]; ninit += 1
        elif l.startswith("run "):
            inrun = True; seg = dict(obs=[], cbs={}, first=True, start=i)
        elif l.startswith("op run "):
            close_seg(seg, True, i); seg = None; inrun = False
        elif l.startswith("env poll"):
            if "DEADLOCK" in l:
                seg = None; continue
            if seg is not None and (seg["obs"] or seg["cbs"] or seg["first"]):
                m = POLL_RE.match(l)
                if not m: continue
                it = int(m.group(1))
                if seg.get("iter") == it:
                    # another poll of the same iteration: nothing but dispatch in between
                    seg = dict(obs=[], cbs={}, first=False, start=i, iter=it)
                    continue
                close_seg(seg, False, i)
            m = POLL_RE.match(l)
            seg = dict(obs=[], cbs={}, first=False, start=i, iter=int(m.group(1))) if m else None
        elif l.startswith("obs alive") and seg is not None:
            o = parse_obs(l)
            if o is not None: seg["obs"].append(o)
        elif l.startswith("cb ") and seg is not None:
            w = l.split()
            if w[1] in WATCHERS:
                h = int(w[2][1:]); seg["cbs"][h] = seg["cbs"].get(h, 0) + 1
    return out


# ------------------------------------------------------------------------------------------- runner
def run_impl(ctx, exe, prog, tag):
    d = ctx.tmp / f"scr-{tag}"
    shutil.rmtree(d, ignore_errors=True)
    d.mkdir(parents=True)
    rc, out, err = ctx.run(exe, args=[str(d)], text="\n".join(prog) + "\n", timeout=8,
                           env={"ASAN_OPTIONS": "detect_leaks=1:exitcode=99:abort_on_error=0", "UV_THREADPOOL_SIZE": "1"})
    shutil.rmtree(d, ignore_errors=True)
    return rc, out.splitlines(), err


def run_model(ctx, prog, log):
    envs = [l for l in log if l.startswith("env ")]
    return ctx.driver(["loop"], "\n".join(prog + envs + ["go"]) + "\n", timeout=120).splitlines()


def prog_metrics(prog):
    return any(l.strip() == "config metrics 1" for l in prog)


def evaluate(ctx, exe, prog, tag, with_model=True):
    if any(re.search(r"\b(touch|work_nocb|udp_send_nocb|dgram|init_fail|raise|spawn|(?<!fs )open|fail|async_send_thread|connect|(?<!fs )write)\b|config eagain", l) for l in prog):
        # file-system traffic, requests without completion callback, incoming datagrams / forced EAGAIN:
        # monitors only (the model has no semantics for them)
        with_model = False
    rc, log, err = run_impl(ctx, exe, prog, tag)
    mon = monitors(log, rc, err, prog_metrics(prog))
    try:
        mon.v["C03"] += watcher_exactly_once(log)
    except Exception as ex:
        mon.v["C03"].append(("monitor-crash", "watcher_exactly_once raised " + repr(ex)))
    diff = None
    if with_model and rc == 0:
        ml = run_model(ctx, prog, log)
        log_cmp = [l for l in log if not l.startswith("res ") and not l.startswith("env iouring")]     # `res` lines are observations for the monitors only; `env iouring` is an input of the model
        if ml != log_cmp:
            log = log_cmp
            k = next((j for j in range(min(len(ml), len(log))) if ml[j] != log[j]), min(len(ml), len(log)))
            diff = (k, log[k] if k < len(log) else None, ml[k] if k < len(ml) else None)
    return dict(rc=rc, log=log, err=err, mon=mon, diff=diff, modelled=with_model)


def shrink(ctx, exe, prog, pid, sig, budget=120):
    """greedy removal of program lines / ops inside callbacks, keeping a violation with the same signature"""
    def fails(p, n=[0]):
        n[0] += 1
        e = evaluate(ctx, exe, p, f"shr{n[0] % 8}", with_model=False)
        return any(s == sig for s, _ in e["mon"].v[pid])
    cur = list(prog)
    used = 0
    i = len(cur) - 1
    while i >= 0 and used < budget:
        if cur[i].startswith("config clock0") or cur[i].startswith("config cblimit"):
            i -= 1; continue
        cand = cur[:i] + cur[i + 1:]
        used += 1
        if fails(cand):
            cur = cand
        i -= 1
    for i, l in enumerate(cur):
        if l.startswith("on ") and " ; " in l and used < budget:
            head = " ".join(l.split()[:3])
            ops = l[len(head) + 1:].split(" ; ")
            j = 0
            while j < len(ops) and len(ops) > 1 and used < budget:
                c2 = ops[:j] + ops[j + 1:]
                cand = cur[:i] + [head + " " + " ; ".join(c2)] + cur[i + 1:]
                used += 1
                if fails(cand):
                    ops = c2; cur = cand
                else:
                    j += 1
    return cur


def shape_hash(prog):
    """op-shape: op names and handle kinds, ids and numbers abstracted"""
    s = "\n".join(re.sub(r"\d+", "#", l) for l in prog if not l.startswith("config clock0"))
    return hashlib.sha1(s.encode()).hexdigest()[:12]


ROWS = {
    "C01": ["ref/unref on active handle", "ref/unref on closing handle", "request outstanding at run end", "uv_loop_close EBUSY",
            "uv_loop_close success", "alive only through closing handles", "close inside callback", "passive kinds"],
    "C02": ["close from own callback", "close of sibling in same phase", "close with udp send in flight", "close from close_cb",
            "close from main", "cancelled work", "close in poll batch"],
    "C03": ["three modes", "metrics first poll", "EINTR re-poll", "uv_stop in callback", "uv_stop before run", "watcher stop/start cross",
            "timeout > 0", "timeout -1", "idle forces 0"],
}


def drive(ctx, pid, modules, bias_mix, quick_n, thorough_n):
    """common body of checks/c01.py, c02.py, c03.py"""
    ctx.trusted += ["clang/ASan/LSan; static-link interposition of clock_gettime and epoll_pwait in harness/sim_loop.c "
                    "(virtual clock, canonical event order, thread-pool completions gated to poll time)",
                    "the simulator's reduction of tcp/pipe/udp/signal/fs_event to start/stop/close without traffic",
                    "loop->nfds > 0 during uv_run (the async and signal watchers are always registered)"]
    ctx.assumptions += ["single loop, single loop thread; uv_async_send only from the loop thread (cross-thread wake-up is C09)",
                        "programs are Legal: no API call on a handle after its close_cb, no start/stop-type call after uv_close "
                        "(except uv_timer_start/again, which are defined to fail), no uv_run / uv_loop_close from callbacks",
                        "sendmsg on the loopback UDP socket never blocks; no datagram, connection, signal or inotify event ever arrives"]
    lean_ok = ctx.require_lean(modules)
    exe = ctx.harness("sim_loop", ["harness/sim_loop.c"])
    if exe is None:
        return
    ctx.driver(["loop"], "go\n")      # make sure the driver snapshot exists before worker threads use it
    if ctx.replay:
        rp = json.loads(Path(ctx.replay).read_text())["replay"]
        e = evaluate(ctx, exe, rp["program"], "replay")
        ctx.count()
        for s, msg in e["mon"].v[pid]:
            ctx.violation(s, f"{pid}: {msg}", rp)
        if e["diff"] and not [1 for s, _ in e["mon"].v[pid] if s not in ctx.known]:
            ctx.broken_correspondence("loop model vs implementation", f"line {e['diff'][0] + 1}: impl `{e['diff'][1]}` model `{e['diff'][2]}`")
        return
    n = ctx.scale(quick_n, thorough_n)
    cases = []
    corpus = VERIF / "corpus" / pid
    if corpus.is_dir():
        for p in sorted(corpus.glob("*.txt")):
            cases.append(("corpus:" + p.name, [l for l in p.read_text().splitlines() if l.strip()]))
    for k in range(n):
        bias = bias_mix[k % len(bias_mix)]
        size = 1 if ctx.quick else ctx.rng.choice([1, 1, 2, 3])
        cases.append((f"gen{k}", gen_program(ctx.rng.fork(), bias, size)))
    agg = {}
    hist = {}
    results = []
    def work(item):
        k, (name, prog) = item
        return name, prog, evaluate(ctx, exe, prog, f"w{k % (NCPU * 2)}-{k}")
    with ThreadPoolExecutor(max(2, NCPU)) as ex:
        results = list(ex.map(work, enumerate(cases)))
    ndiff = 0
    for name, prog, e in results:
        ctx.count()
        mon = e["mon"]
        for k_, v_ in mon.stats.items():
            agg[k_] = agg.get(k_, 0) + v_
        for l in prog:
            w = l.split()
            if w[0] == "op": hist[w[1]] = hist.get(w[1], 0) + 1
            if w[0] == "on":
                for seg in " ".join(w[3:]).split(" ; "):
                    hist["cb:" + seg.split()[0]] = hist.get("cb:" + seg.split()[0], 0) + 1
        fresh = [(s, msg) for s, msg in mon.v[pid] if s not in ctx.known]
        for s, msg in mon.v[pid]:
            small = prog
            if not any(v["sig"] == s for v in ctx.violations) and s not in ctx.known:
                small = shrink(ctx, exe, prog, pid, s)
            ctx.violation(s, f"{pid}: {msg}", {"program": small, "case": name})
        if e["diff"] and not fresh:
            ndiff += 1
            if ndiff == 1:
                ctx.broken_correspondence("loop model vs implementation (sim_loop.c / uvdriver loop)",
                                          f"case {name} line {e['diff'][0] + 1}: impl `{e['diff'][1]}` model `{e['diff'][2]}`; program: {prog}")
        if e["rc"] == 0 and not e["diff"] and e["modelled"]:
            ctx.validated()
        if not e["modelled"]: agg["monitor_only_cases"] = agg.get("monitor_only_cases", 0) + 1
        if mon.stats["ops_in_cb"] >= 1 and len(mon.kinds_used) >= 2:
            ctx.nontrivial(shape_hash(prog))
        if len(ctx.cov["samples"]) < 3:
            ctx.sample({"program": prog[:25]})
    ctx.notes["input_distribution"] = {"ops": dict(sorted(hist.items())), "log_stats": agg, "cases": len(cases), "model_diffs": ndiff}
    g = lambda k: agg.get(k, 0)
    # DESIGN.md Appendix C rows reached by this run (hit counts measured on the implementation logs)
    ctx.notes["rows"] = {
        "C01 handle_start/stop/ref/unref counter": hist.get("ref", 0) + hist.get("unref", 0) + hist.get("cb:ref", 0) + hist.get("cb:unref", 0) + hist.get("start", 0) + hist.get("stop", 0),
        "C01 req register/unregister pairing (incl. synchronous rejections)": hist.get("work", 0) + hist.get("cb:work", 0) + hist.get("udp_send", 0) + hist.get("reject", 0) + hist.get("cb:reject", 0) + hist.get("work_null", 0) + hist.get("connect_bad", 0),
        "C01 fs / getaddrinfo / getnameinfo / random requests [submitted, of them: io_uring ring, thread pool queued, thread pool at once]":
            [sum(hist.get(k, 0) + hist.get("cb:" + k, 0) for k in ("fs", "getaddrinfo", "getnameinfo", "random")), g("route_ring"), g("route_pool"), g("route_now")],
        "C01 uv__loop_alive / run exit": g("runs"),
        "C01 uv_loop_close (EBUSY seen)": g("ebusy"),
        "C01/C02 uv__finish_close (observations inside close_cb)": g("alive_in_close_phase") + g("close_from_cb"),
        "C02 uv_close per-type teardown (closes from callbacks)": g("close_from_cb"),
        "C02 run_closing detaches list (close in same phase)": g("close_same_phase"),
        "C02 fs_event watch release checked": g("fs_watch_checked"),
        "C03 phase sequence (iterations)": g("iterations"),
        "C03 uv__backend_timeout (timeouts checked / lenient)": [g("timeout_checked"), g("timeout_lenient")],
        "C03 io_poll timeout loop (EINTR re-polls)": g("eintr"),
        "C03 deadlock marker (timeout -1, nothing ready)": g("deadlock"),
        "monitor-only cases (fs traffic)": g("monitor_only_cases"),
        "ops refused as not Legal (bad-op)": g("bad_ops"),
    }
    if (ctx.broken and not ctx.violations):
        # a proof / the correspondence no longer checks: search with the monitors alone on an enlarged generation
        ctx.log("obligation broken; searching for a failing input with the monitors")
        srng = SplitMix(ctx.seed * 7919 + 13)
        budget = 20 * n
        done = 0
        found = False
        def swork(k):
            prog = gen_program(SplitMix(srng.s + k * 0x9E3779B97F4A7C15), bias_mix[k % len(bias_mix)], 1 + (k % 3))
            return prog, evaluate(ctx, exe, prog, f"s{k % (NCPU * 2)}-{k}", with_model=False)
        with ThreadPoolExecutor(max(2, NCPU)) as ex:
            for chunk in range(0, budget, 64):
                for prog, e in ex.map(swork, range(chunk, min(budget, chunk + 64))):
                    done += 1
                    for s, msg in e["mon"].v[pid]:
                        if s in ctx.known:
                            ctx.violation(s, f"{pid} (search): {msg}", {"program": prog}); continue
                        small = shrink(ctx, exe, prog, pid, s) if not found else prog
                        found = True
                        ctx.violation(s, f"{pid} (search): {msg}", {"program": small})
                if found or time.time() - ctx.t0 > (240 if ctx.quick else 1500):
                    break
        ctx.notes["search"] = f"{done} extra programs run against the {pid} monitors after an obligation broke; found={found}"
    ctx.cov["rule"] = ("programs (main ops + callback table) x run modes generated from the handle-kind/op grammar, biased per "
                       "property; non-trivial = at least one op executed inside a callback and >= 2 handle kinds; distinct by "
                       "op-shape hash (numbers abstracted)")
