"""C18 (address half) — inet_pton4/6, inet_ntop4/6, uv_inet_pton/ntop, uv_ip4_addr/uv_ip6_addr,
uv_ip4_name/uv_ip6_name/uv_ip_name, uv__strscpy.
Proof: UvModel.Props.C18Inet over the model UvModel.Inet.  Tie B: harness/c18_inet.c calls the
freshly built library with every destination (and source) placed against a PROT_NONE page and
calls glibc's inet_pton/inet_ntop on the same input; `uvdriver c18inet` runs the model on the
same lines.  model≠impl = broken correspondence; impl≠glibc (accept/reject, bytes, text,
ENOSPC boundary), failed round trip, strscpy contract, crash = property violation (monitor).
The UTF-8/IDNA/WTF-8 half lives in checks/c18_text.py and is called at the end if present."""
import itertools, json
from pathlib import Path
from vlib import *

MANIFEST = {
 "text": "Lean 4 theorems over an executable model of src/inet.c, uv_ip4_addr/uv_ip6_addr/uv_ip*_name and src/strscpy.c: "
         "inet_pton4 accepts exactly the dotted-quad grammar and returns its value; ntop4/pton4 round trip for all 2^32 addresses; "
         "inet_pton6 accepts exactly RFC 4291 text (grammar Ipv6Text, soundness and completeness) with the grammar's value, never a "
         "string longer than 45 chars; pton6(ntop6(a)) = a for all 2^128 addresses; ntop lengths (<=15 / <=45), charset, exact ENOSPC "
         "boundary and no write past size; uv_ip6_addr(a%z) == uv_inet_pton(a) for every a; uv__strscpy never writes past n, NUL-terminates, returns UV_E2BIG iff truncated.  The model is tied to the working "
         "tree by running model, implementation and glibc on the same strings/addresses/sizes (exhaustive short strings over the full "
         "byte alphabet, grammar-generated and mutated forms, all 256 zero-word patterns, every destination size 0..len+2) with all "
         "buffers against guard pages.  Text half (UvModel.Props.C18Text): uv__utf8_decode1 accepts exactly the Unicode Table 3-7 "
         "well-formed sequences with the right value and length (truncated and ill-formed input rejected); uv__idna_toascii never writes "
         "past the destination, NUL-terminates inside it, copies ASCII labels unchanged, prefixes xn-- exactly for labels with non-ASCII "
         "code points, rejects ill-formed UTF-8; the UTF-16/WTF-8 converters round-trip every code-unit list (unpaired surrogates "
         "included) and their length functions are exact; validated against the implementation on exhaustive short byte strings, "
         "class-representative grids, host names with every destination size, and against Python's punycode codec (validation, not proof).  "
         "Caller of the codec (UvModel.Props.C18Gai over UvModel/GaiHost.lean): for every hints value uv_getaddrinfo refuses ill-formed and "
         "over-long host names before the resolver is called and otherwise hands the resolver exactly the C string uv__idna_toascii stored "
         "(<= 255 bytes); tied to the tree by harness/c18_gai.c (whole library, getaddrinfo()/freeaddrinfo() interposed, no network) over "
         "host-name classes x hints shapes (NULL, every ai_flags bit, families, socktypes) in sync and thread-pool mode.",
 "note": "Trusted: Lean kernel (axioms propext, Classical.choice, Quot.sound); the byte-list abstraction of C strings/buffers "
         "(validated line by line against the implementation); glibc inet_pton/inet_ntop as second implementation of the grammar; "
         "snprintf %u/%x modelled for unsigned char / 16-bit arguments only; if_nametoindex (sin6_scope_id) is an OS answer checked "
         "by a monitor only, not modelled; clang/ASan/guard pages.",
 "design": "DESIGN.md §3 C18",
 "technique": "Lean 4 proof over executable model + correspondence (unit harness with guard pages, three-way diff model/impl/glibc)",
}

ALPHA = b"0123456789abcdefABCDEF:.%xg"
ALPHA_Q = b"0129aF:.%xg"          # reduced alphabet for the quick tier
ZONES = [b"", b"%lo", b"%nonexist0", b"%", b"%%", b"%lo%x", b"%1"]
BATCH = 40000


def hx(bs):
    return bytes(bs).hex() if bs else "-"


def unhx(s):
    return b"" if s == "-" else bytes.fromhex(s)


def cstr(b):
    i = b.find(b"\0")
    return b if i < 0 else b[:i]


def fields(line):
    return dict(p.split("=", 1) for p in line.split() if "=" in p)


# ------------------------------------------------------------------ running both sides
class Runner:
    def __init__(self, ctx, exe):
        self.ctx, self.exe = ctx, exe
        self.first_diff = None       # (line, model, impl)
        self.diff_ops = {}
        self.stats = {}

    def impl(self, lines):
        """-> list of output lines or None (crash on that line)"""
        outs, todo = [], list(lines)
        while todo:
            rc, so, se = self.ctx.run(self.exe, text="\n".join(todo) + "\n")
            k = so.count("\n")
            got = so.split("\n")[:k]
            if k >= len(todo):
                outs += got[:len(todo)]
                if rc != 0:
                    self.ctx.violation("harness-exit", f"harness exited rc={rc}: {se[-600:]}", {"lines": todo[-5:]})
                break
            outs += got
            outs.append(None)
            self.ctx.violation("crash-" + todo[k].split()[0] + "-" + classify(todo[k]),
                               f"harness crashed/aborted (rc={rc}) on `{todo[k]}`: {se[-600:]}",
                               {"lines": [todo[k]]})
            todo = todo[k + 1:]
        return outs

    def model(self, lines):
        return self.ctx.driver(["c18inet"], "\n".join(lines) + "\n").splitlines()

    def check(self, lines, monitors_only=False):
        """run, monitor, diff; returns list of (line, sig, what) monitor failures"""
        fails = []
        for i in range(0, len(lines), BATCH):
            chunk = lines[i:i + BATCH]
            io = self.impl(chunk)
            mo = None if monitors_only else self.model(chunk)
            if mo is not None and len(mo) != len(chunk):
                self.ctx.broken_correspondence("c18inet driver", f"driver printed {len(mo)} lines for {len(chunk)} inputs")
                mo = None
            for j, ln in enumerate(chunk):
                o = io[j]
                self.ctx.count()
                if o is None:
                    continue
                op = ln.split()[0]
                self.stats[op] = self.stats.get(op, 0) + 1
                f = fields(o)
                if o == "bad-op" or not o.startswith(ln + " "):
                    self.ctx.broken_correspondence("c18inet harness protocol", f"`{ln}` -> `{o}`")
                    continue
                r = monitor(ln, f)
                if r:
                    fails.append((ln, r[0], r[1]))
                if mo is not None:
                    mf = fields(mo[j])
                    if not mo[j].startswith(ln + " ") or any(f.get(k) != v for k, v in mf.items()):
                        self.diff_ops[op] = self.diff_ops.get(op, 0) + 1
                        if self.first_diff is None:
                            self.first_diff = (ln, mo[j], o)
                    else:
                        self.ctx.validated()
                key = nontrivial_key(ln, f)
                if key:
                    self.ctx.nontrivial(key)
        return fails


def classify(ln):
    w = ln.split()
    if w[0] in ("pton4", "pton6"):
        s = cstr(unhx(w[1]))
        return ("zone" if b"%" in s else "nozone") + ("-long" if len(s.split(b"%")[0]) >= 40 else "")
    return ""


def monitor(ln, f):
    """the property text evaluated on the implementation's answers only.  -> (sig, what) or None"""
    w = ln.split()
    op = w[0]
    if op in ("pton4", "pton6"):
        s = cstr(unhx(w[1]))
        for fn, key in (("uv_inet_pton", "uv"), ("uv_ip4_addr" if op == "pton4" else "uv_ip6_addr", "ip4" if op == "pton4" else "ip6")):
            if f[key] != f["libc"]:
                ir, lr = f[key].split(":")[0], f["libc"].split(":")[0]
                kind = "accepts-invalid" if ir == "0" and lr != "0" else "rejects-valid" if lr == "0" and ir != "0" else "wrong-result"
                return (f"{fn}-{op}-{kind}-{classify(ln)}",
                        f"{fn}({s!r}) = {f[key]} but glibc inet_pton on the address part gives {f['libc']}")
        if "BADHDR" in ln:
            return (f"{op}-sockaddr-header", f"family/port not set for {s!r}")
        if op == "pton6" and f["ip6"].startswith("0:") and f["scope"] != f["want"]:
            return ("uv_ip6_addr-scope-id", f"uv_ip6_addr({s!r}) scope_id {f['scope']} != if_nametoindex {f['want']}")
    elif op in ("ntop4", "ntop6"):
        size = int(w[2])
        lr, lt = f["libc"].split(":")
        for fn, key in (("uv_inet_ntop", "uv"), ("uv_ip%s_name" % op[4], "name"), ("uv_ip_name", "ipname")):
            r, buf = f[key].split(":")
            buf = unhx(buf)
            if r != lr:
                return (f"{fn}-{op}-ret", f"{fn}({w[1]}, size={size}) returned {r}, glibc inet_ntop {lr}")
            if r == "0":
                if b"\0" not in buf:
                    return (f"{fn}-{op}-unterminated", f"{fn}({w[1]}, size={size}) left no NUL inside the buffer")
                if cstr(buf) != unhx(lt):
                    return (f"{fn}-{op}-text", f"{fn}({w[1]}) printed {cstr(buf)!r}, glibc {unhx(lt)!r}")
    elif op == "strscpy":
        src, n = cstr(unhx(w[1])), int(w[2])
        ret, dst = int(f["ret"]), unhx(f["dst"])
        if n == 0:
            if ret != 0:
                return ("strscpy-n0", f"uv__strscpy(n=0) returned {ret}")
        else:
            want = src[:n - 1]
            if b"\0" not in dst or cstr(dst) != want:
                return ("strscpy-content", f"uv__strscpy({src!r}, n={n}) left {dst!r}")
            if ret != (len(src) if len(src) < n else -7):
                return ("strscpy-ret", f"uv__strscpy({src!r}, n={n}) returned {ret}")
    elif op == "af":
        a = int(w[1])
        want = "0" if a in (2, 10) else "-97"
        if f["ntop"] != want or f["ipname"] != want or (a not in (2, 10) and f["pton"] != "-97"):
            return ("af-dispatch", f"address family {a}: {f}")
    return None


def nontrivial_key(ln, f):
    """distinct & non-trivial = not rejected at the first character / size within +-2 of the boundary (DESIGN Appendix)"""
    w = ln.split()
    if w[0] in ("pton4", "pton6"):
        s = cstr(unhx(w[1]))
        if f["libc"].startswith("0:") or (len(s) > 1 and (s[:1].isalnum() or s[:2] == b"::")):
            return ln
    elif w[0] in ("ntop4", "ntop6"):
        ln_txt = len(cstr(unhx(f["uv"].split(":")[1]))) if f["uv"].startswith("0:") else None
        return ln  # every (address,size) pair is a distinct case; sizes are generated around the boundary
    elif w[0] == "strscpy":
        return ln
    return None


# ------------------------------------------------------------------ generators
def all_strings(alpha, maxlen):
    for n in range(maxlen + 1):
        for t in itertools.product(alpha, repeat=n):
            yield bytes(t)


def rand_group(rng):
    w = rng.choice([0, 1, 9, 0xa, 0xf, 0x10, 0xff, 0x100, 0xfff, 0x1000, 0xffff, rng.below(65536), rng.below(65536)])
    t = "%x" % w
    if rng.chance(1, 3):
        t = t.rjust(rng.range(len(t), 4), "0")
    if rng.chance(1, 3):
        t = t.upper()
    return t


def rand_quad(rng):
    return ".".join(str(rng.choice([0, 1, 9, 10, 99, 100, 199, 200, 249, 250, 255, rng.below(256)])) for _ in range(4))


def v6_form(rng, L, R, v4, comp):
    """L hex groups, then '::' if comp, then R hex groups, then a dotted quad if v4"""
    left = [rand_group(rng) for _ in range(L)]
    right = [rand_group(rng) for _ in range(R)] + ([rand_quad(rng)] if v4 else [])
    if comp:
        return (":".join(left) + "::" + ":".join(right)).encode()
    return ":".join(left + right).encode()


def all_shapes():
    """every valid (L, R, v4, compressed) shape"""
    for v4 in (False, True):
        n = 6 if v4 else 8
        yield (n, 0, v4, False)
        for L in range(n):
            for R in range(n - L):
                yield (L, R, v4, True)


def mutate(rng, s):
    s = bytearray(s)
    k = rng.below(12)
    pos = rng.below(len(s) + 1)
    ch = rng.choice(list(ALPHA) + [rng.below(255) + 1])
    if k <= 1:
        s.insert(pos, ch)
    elif k <= 3 and s:
        del s[min(pos, len(s) - 1)]
    elif k <= 5 and s:
        s[min(pos, len(s) - 1)] = ch
    elif k == 6:
        s.insert(pos, ord(":"))
    elif k == 7:
        s.insert(pos, ord("."))
    elif k == 8:                                   # leading zero in some group/octet
        idx = [i for i in range(len(s)) if i == 0 or s[i - 1] in b":."]
        s.insert(rng.choice(idx), ord("0"))
    elif k == 9:                                   # over-long group
        idx = [i for i in range(len(s)) if i == 0 or s[i - 1] in b":."]
        i = rng.choice(idx)
        s[i:i] = b"12345"[:rng.range(1, 5)]
    elif k == 10:                                  # octet out of range / extra group
        s += rng.choice([b".256", b":1", b":", b".", b"::", b".1", b"256", b"%lo", b"%nonexist0"])
    else:
        s[0:0] = rng.choice([b":", b"::", b"0", b".", b"1:", b"1."])
    return bytes(s)


def long_forms():
    """address parts of 37..47 chars (valid up to 45), with and without zone"""
    out = []
    octs = ["1", "22", "255"]
    for a, b, c, d in itertools.product(octs, repeat=4):
        base = "1111:2222:3333:aaaa:BBBB:ffff:%s.%s.%s.%s" % (a, b, c, d)
        for tail in ("", "1", "X", ":", ".1", "XYZ"):
            out.append((base + tail).encode())
    h = "ffff:ffff:ffff:ffff:ffff:ffff:ffff:8888"
    for tail in ("", "1", "X", "XYZ", ":", "::", "%"):
        out.append((h + tail).encode())
    out.append(b"0" * 50)
    out.append(b"::" + b"0" * 44)
    out.append(b"1:" * 22 + b"1")
    return out


def gen_pton6(ctx, rng, per_shape, nmut):
    strs = []
    for (L, R, v4, comp) in all_shapes():
        for _ in range(per_shape):
            strs.append(v6_form(rng, L, R, v4, comp))
    valid = list(strs)
    for _ in range(nmut):
        s = rng.choice(valid)
        for _ in range(rng.range(1, 2)):
            s = mutate(rng, s)
        strs.append(s)
    for s in long_forms():
        for z in ZONES:
            strs.append(s + z)
    for s in valid[::7]:
        strs.append(s + rng.choice(ZONES[1:]))
    return strs


def gen_pton4(rng, n):
    strs = []
    corner = ["0", "1", "9", "10", "99", "100", "199", "200", "249", "250", "255", "256", "260", "300", "999", "1000", "00", "01", "001", "0255", ""]
    for _ in range(n):
        parts = [rng.choice(corner) if rng.chance(2, 3) else str(rng.below(300)) for _ in range(rng.choice([4, 4, 4, 3, 5]))]
        s = ".".join(parts).encode()
        if rng.chance(1, 2):
            s = mutate(rng, s)
        strs.append(s)
    return strs


FILLS = [lambda rng: 1 + rng.below(15), lambda rng: 0x1000 + rng.below(0xf000), lambda rng: 0xffff,
         lambda rng: rng.choice([1, 0x10, 0x100, 0x1000, 0xff, 0xfff, 0xffff, 1 + rng.below(65535)])]


def zero_pattern_addrs(rng, nfill):
    """all 256 zero-word patterns (every zero-run shape, ties, several runs) x fill styles"""
    out = []
    for mask in range(256):
        for k in range(nfill):
            ws = [0 if mask >> i & 1 else FILLS[k % len(FILLS)](rng) for i in range(8)]
            out.append(b"".join(w.to_bytes(2, "big") for w in ws))
    # embedded IPv4 forms and near misses
    for pre in ([0] * 6, [0] * 5 + [0xffff], [0] * 5 + [0xfffe], [0] * 4 + [1, 0xffff], [0] * 4 + [0xffff, 0]):
        for q in ([0, 0, 0, 0], [0, 0, 0, 1], [0, 0, 0, 2], [0, 0, 1, 0], [1, 2, 3, 4], [255, 255, 255, 255], [0, 1, 0, 0],
                  [10, 0, 0, 200], [rng.below(256) for _ in range(4)]):
            out.append(b"".join(w.to_bytes(2, "big") for w in pre) + bytes(q))
    return out


def ntop_lines(op, addr, textlen, all_sizes):
    sizes = range(0, textlen + 3) if all_sizes else [0, textlen - 1, textlen, textlen + 1, textlen + 2, 64]
    return [f"{op} {hx(addr)} {max(0, z)}" for z in sizes]


def py_ntop_len(op, addr):
    import socket
    return len(socket.inet_ntop(socket.AF_INET6 if op == "ntop6" else socket.AF_INET, addr))


# ------------------------------------------------------------------ shrinking
def shrink(run, ln, sig):
    """greedy single-character deletion on string inputs while the same signature still fails"""
    w = ln.split()
    if w[0] not in ("pton4", "pton6", "strscpy"):
        return ln
    s = unhx(w[1])
    for _ in range(200):
        cands = [s[:i] + s[i + 1:] for i in range(len(s))]
        lines = [" ".join([w[0], hx(c)] + w[2:]) for c in cands]
        if not lines:
            break
        fails = run.check(lines, monitors_only=True)
        hit = [l for (l, sg, _) in fails if sg == sig]
        if not hit:
            break
        s = unhx(hit[0].split()[1])
    return " ".join([w[0], hx(s)] + w[2:])


def report(ctx, run, fails):
    seen = set()
    for ln, sig, what in fails:
        if sig in seen:
            continue
        seen.add(sig)
        small = shrink(run, ln, sig)
        if small != ln:                      # describe the shrunk input, not the one first found
            again = [w for (l, sg, w) in run.check([small], monitors_only=True) if sg == sig]
            what = again[0] if again else what
        ctx.violation(sig, what + f"  [input line: {small}]", {"lines": [small], "found_as": ln})


# ------------------------------------------------------------------ main
def build_cases(ctx, rng, mult=1, only=None):
    """-> list of protocol lines.  mult scales the random part (used by the search after a broken correspondence)."""
    L = []
    want = lambda op: only is None or op in only
    if want("pton4") or want("pton6"):
        # exhaustive short strings
        full = list(all_strings(range(256), ctx.scale(2, 2))) if mult == 1 else []
        small = list(all_strings(ALPHA_Q if ctx.quick else ALPHA, ctx.scale(4, 4))) if mult == 1 else []
        extra = list(all_strings(b"01a:.%", ctx.scale(5, 7))) if mult == 1 else []
        p6 = gen_pton6(ctx, rng, ctx.scale(6, 40) * mult, ctx.scale(3000, 60000) * mult)
        p4 = gen_pton4(rng, ctx.scale(3000, 60000) * mult)
        if want("pton4"):
            L += [f"pton4 {hx(s)}" for s in full + small + extra + p4 + p6[::5]]
        if want("pton6"):
            L += [f"pton6 {hx(s)}" for s in full + small + extra + p6 + p4[::5]]
        ctx.notes.setdefault("inputs", {}).update({
            "exhaustive_full_alphabet_len_le": 2, "exhaustive_alphabet": (ALPHA_Q if ctx.quick else ALPHA).decode(),
            "exhaustive_alphabet_len_le": 4, "exhaustive_01a:.%_len_le": ctx.scale(5, 7),
            "grammar_shapes": len(list(all_shapes())), "pton6_generated": len(p6), "pton4_generated": len(p4)})
    if want("ntop4"):
        c = [0, 1, 9, 10, 99, 100, 255]
        addrs = [bytes(t) for t in itertools.product(c, repeat=4)]
        addrs += [bytes(rng.below(256) for _ in range(4)) for _ in range(ctx.scale(500, 20000) * mult)]
        for k, a in enumerate(addrs):
            L += ntop_lines("ntop4", a, py_ntop_len("ntop4", a), all_sizes=(k % ctx.scale(8, 1) == 0))
    if want("ntop6"):
        addrs = zero_pattern_addrs(rng, ctx.scale(2, 8) * mult)
        addrs += [bytes(rng.below(256) for _ in range(16)) for _ in range(ctx.scale(300, 20000) * mult)]
        for k, a in enumerate(addrs):
            L += ntop_lines("ntop6", a, py_ntop_len("ntop6", a), all_sizes=(k % ctx.scale(4, 1) == 0))
    if want("strscpy"):
        for _ in range(ctx.scale(300, 5000) * mult):
            n = rng.below(12)
            s = bytes((rng.below(255) + 1) if rng.chance(9, 10) else 0 for _ in range(n))
            for z in range(0, n + 3):
                L.append(f"strscpy {hx(s)} {z}")
    if want("af") and mult == 1:
        L += [f"af {a}" for a in (0, 1, 2, 3, 9, 10, 11, 255)]
    return L


def roundtrip(ctx, run, rng, n):
    """ntop then pton on the implementation (and the model): must give the address back"""
    a6 = zero_pattern_addrs(rng, 2) + [bytes(rng.below(256) for _ in range(16)) for _ in range(n)]
    a4 = [bytes(rng.below(256) for _ in range(4)) for _ in range(n)]
    lines = [f"ntop6 {hx(a)} 46" for a in a6] + [f"ntop4 {hx(a)} 16" for a in a4]
    fails = run.check(lines)
    io = run.impl(lines)
    back, want = [], []
    for ln, o in zip(lines, io):
        if o is None:
            continue
        f = fields(o)
        if not f["uv"].startswith("0:"):
            fails.append((ln, "ntop-fullsize-enospc", f"`{ln}` failed with a full-size buffer: {f['uv']}"))
            continue
        txt = cstr(unhx(f["uv"].split(":")[1]))
        back.append(("pton6 " if ln.startswith("ntop6") else "pton4 ") + hx(txt))
        want.append(ln.split()[1])
    fails += run.check(back)
    for ln, o, wv in zip(back, run.impl(back), want):
        if o is None:
            continue
        f = fields(o)
        if f["uv"] != "0:" + wv:
            fails.append((ln, "roundtrip-" + ln.split()[0], f"pton(ntop({wv})) = {f['uv']} via text {unhx(ln.split()[1])!r}"))
    ctx.notes["roundtrip_addresses"] = len(back)
    return fails


def run(ctx):
    ctx.trusted += ["glibc inet_pton/inet_ntop as reference implementation of the text grammar",
                    "byte-list abstraction of C strings and buffers (validated by the line-by-line diff)",
                    "clang -fsanitize=address,undefined; mmap/mprotect guard pages"]
    ctx.assumptions += ["snprintf %u / %x print canonical decimal / lower-case hex for arguments < 256 / < 65536",
                        "sizes passed to uv__strscpy are <= SSIZE_MAX+1",
                        "sin6_scope_id = if_nametoindex(zone) is an OS answer (monitor only)"]
    proofs_ok = ctx.require_lean(["UvModel.Props.C18Inet", "UvModel.Props.C18Text", "UvModel.Props.C18Gai"])
    exe = ctx.harness("c18_inet", ["harness/c18_inet.c"], link_lib=True)
    if exe is not None:
        run_inet(ctx, exe, proofs_ok)
    try:
        import c18_text
    except ImportError:
        c18_text = None
    if c18_text is not None:
        c18_text.run_text(ctx)


def run_inet(ctx, exe, proofs_ok):
    rng = ctx.rng.fork()
    run = Runner(ctx, exe)
    if ctx.replay:
        rp = json.loads(Path(ctx.replay).read_text()).get("replay") or {}
        if "lines" in rp:                       # a replay of the address half: exactly those lines
            report(ctx, run, run.check(rp["lines"]))
            if run.first_diff:
                ctx.broken_correspondence("c18inet model vs implementation", "line `%s`\n model: %s\n impl:  %s" % run.first_diff)
        return                                  # (a replay of the text half is handled by c18_text)
    corpus = VERIF / "corpus" / "C18" / "inet.txt"
    fails = []
    if corpus.exists():
        fails += run.check([l for l in corpus.read_text().splitlines() if l and not l.startswith("#")])
    fails += run.check(build_cases(ctx, rng))
    fails += roundtrip(ctx, run, rng, ctx.scale(500, 20000))
    report(ctx, run, fails)
    ctx.notes["lines_per_op"] = dict(run.stats)
    ctx.cov["rule"] = ("pton: all byte strings of length <=2 over 0..255, all strings of length <=4 over the address alphabet, <=5/7 over "
                       "`01a:.%`, every valid (left groups, right groups, IPv4 tail, compressed) shape with random digits/case/leading "
                       "zeros, 1-2 character-level mutations of those, 37..47-char forms with 7 zone suffixes; ntop: all 256 zero-word "
                       "patterns x fill styles + IPv4-embedded forms + random, destination sizes 0..len+2; strscpy: random strings x "
                       "n=0..len+2.  Non-trivial = accepted, or not rejected at the first character; each (address,size) pair.")
    if run.first_diff:
        ctx.broken_correspondence("c18inet model vs implementation (%s)" % ", ".join(f"{k}:{v}" for k, v in sorted(run.diff_ops.items())),
                                  "line `%s`\n model: %s\n impl:  %s" % run.first_diff)
    if (run.first_diff or not proofs_ok) and not ctx.violations:
        # search: monitors alone, ~20x the random budget, biased to the differing operations
        only = set(run.diff_ops) or None
        ctx.log("searching with monitors only (20x)", only)
        more = run.check(build_cases(ctx, rng, mult=20, only=only), monitors_only=True)
        report(ctx, run, more)
        ctx.notes["search"] = f"monitors alone over 20x generation for ops {sorted(only) if only else 'all'}: {len(more)} failing inputs"
