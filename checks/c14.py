"""C14 — uv_poll / io watchers: only requested real events, none after stop, kernel interest in sync.
Proof: UvModel.Props.C14 over the model UvModel.IoWatch.  Tie B: harness/c14_sim.c links the real
library, poll handles and raw uv__io_t watchers on harness-owned socketpairs/pipes/eventfds placed at
chosen descriptor numbers; epoll_ctl logged, epoll_pwait either observed (real kernel, interest list
read from /proc/self/fdinfo) or scripted (stale entries, duplicates, bare ERR/HUP, 1024-event
batches); scripted callbacks stop/close/restart other handles, close and re-open descriptors.  Every
output line is diffed against `uvdriver iowatch`; monitors evaluate the property text on the
implementation's log without the model."""
from vlib import *

MANIFEST = {
 "text": "Lean 4 theorems over an executable model of uv__io_start/stop/close/feed, maybe_resize, uv__io_poll "
         "(watcher-queue application direct and through the 256-slot io_uring ctl ring, event filter, bare "
         "ERR/HUP merge, disarm of unknown fds, 1024/48 re-poll rule), uv__platform_invalidate_fd, "
         "uv_poll_init/start/stop/close and uv__poll_io, with a kernel interest list keyed by open file "
         "description: for all op sequences, callback scripts and kernel batches, ctl ring on or off — nfds exact, queue "
         "duplicate-free, kernel interest map == requested masks at epoll_pwait with every entry owned by the live "
         "handle of a descriptor that still refers to the same open file (unconditional: invariant FInv over every "
         "reachable state), ring and direct ctl paths yield the same interest map, user ops never reach abort(), callbacks only for started handles with events ⊆ requested and backed by the "
         "batch, stale batch entries erased on stop/close (also for a re-used fd number), level-triggered "
         "re-reporting. The model is tied to the working tree by running the real library against the real "
         "kernel (interest list read back from /proc) and against scripted batches, diffing every line, plus "
         "model-independent monitors (poll(2) at callback time, callback-after-stop, interest list vs. "
         "watched set, nfds). The intrusive lists themselves (src/queue.h: watcher_queue, pending_queue and every "
         "other libuv queue the models write as a List) are modelled at pointer level (UvModel.Queue) and proved "
         "to refine the List operations for every memory and list length (UvModel.Props.QueueRefine: insert/"
         "remove/split/move/foreach/drain, frame rule, the detach-then-drain idiom under mutation, "
         "self-linkedness as membership flag), tied to the real inline functions by a whole-memory differential "
         "(harness/queue_ops.c) with a plain-list monitor.",
 "note": "Trusted: Lean kernel; the interposition harness (epoll_ctl/epoll_pwait/syscall defined in "
         "harness/c14_sim.c), /proc/self/fdinfo as the kernel's interest list, poll(2) as ground truth for "
         "readiness, clang/ASan. Readiness itself (which batch the kernel returns) is an input of the model. "
         "Assumed user discipline (enforced identically by harness and model): one watcher per descriptor; a "
         "descriptor is closed only after every handle on it is closed, or was stopped with uv_poll_stop / "
         "never started. Not modelled: signal watcher ordering (C13), io_uring fs ring events, "
         "UV_METRICS_IDLE_TIME timeout juggling, EINTR, streams/UDP sharing the loop (they use the same "
         "uv__io_* entry points exercised here through raw watchers).",
 "design": "DESIGN.md §3 C14",
 "technique": "Lean 4 proof over executable model + correspondence (whole-library syscall interposition, real kernel and scripted batches) + monitors",
}

FINDINGS = [("second_handle.txt", "poll-stop-of-inactive-second-handle-unregisters-active-one", "interest-mismatch"),
            # same family, by-the-book usage: A stopped, its fd closed, the number re-used by active handle B, then uv_close(A)
            ("stopped_handle_fd_reused.txt", "poll-stop-of-inactive-second-handle-unregisters-active-one", "interest-mismatch"),
            ("ebadf_close_fd_first_dup.txt", "ebadf-stopped-handle-entry-survives-close-fd-first", "interest-closed-handle")]

POLLIN, POLLPRI, POLLOUT, POLLERR, POLLHUP, POLLRDHUP = 1, 2, 4, 8, 16, 0x2000
ALL4 = POLLIN | POLLPRI | POLLOUT | POLLRDHUP
RD, WR, DC, PR = 1, 2, 4, 8


def uv2poll(u):
    return (POLLIN if u & RD else 0) | (POLLPRI if u & PR else 0) | (POLLOUT if u & WR else 0) | (POLLRDHUP if u & DC else 0)


class Bad(Exception):
    def __init__(self, sig, what):
        super().__init__(what)
        self.sig, self.what = sig, what


# ----------------------------------------------------------------------------- generation
UVMASKS = [1, 1, 2, 2, 3, 3, 5, 4, 7, 8, 9, 15, 6, 0]
IOMASKS = [1, 4, 5, 5, 0x2001, 0x2005, 2, 3, 0x2000]
EVS = [1, 1, 4, 4, 5, 8, 16, 24, 0x2000, 0x2001, 0x2011, 2, 3, 9, 17, 20, 0x41, 0x2005, 12, 25]


def gen_script_ops(rng, nid, fds, mode):
    ops = []
    for _ in range(rng.range(1, 3)):
        b = rng.below(nid + 1)
        r = rng.below(16)
        if r < 3: ops.append(f"pstop {b}")
        elif r < 6: ops.append(f"pclose {b}")
        elif r < 8: ops.append(f"pstart {b} {rng.choice(UVMASKS)}")
        elif r < 9: ops.append(f"iostop {b} {rng.choice(IOMASKS)}")
        elif r < 10: ops.append(f"ioclose {b}")
        elif r < 11: ops.append(f"iostart {b} {rng.choice(IOMASKS)}")
        elif r < 13:
            f = rng.choice(fds)
            ops += [f"pclose {b}", f"closefd {f}", f"openfd {f} {rng.below(4)}", f"pinit {f}",
                    f"pstart {nid + rng.below(2)} {rng.choice(UVMASKS)}"]
            if mode != "S": ops.append(f"peer {rng.choice([1, 1, 3])} {f}")
        elif r < 14: ops.append(rng.choice([f"dupfd {rng.choice(fds)}", f"pinit {rng.choice(fds)}", f"pinit {rng.choice(fds)}"]))
        elif r < 15: ops.append(f"iofeed {b}")
        else: ops.append(f"peer {rng.range(1, 6)} {rng.choice(fds)}")
    return ops


def gen_batch(rng, fds, big):
    if big:
        f = rng.choice(fds); g = rng.choice(fds)
        k = rng.choice([1024, 1024, 1000, 1023])
        return f"{f}:{rng.choice(EVS)}*{k} {g}:{rng.choice(EVS)}*{1024 - k}" if k < 1024 else f"{f}:{rng.choice(EVS)}*1024"
    ents = []
    for _ in range(rng.range(1, 6)):
        f = -1 if rng.below(40) == 0 else rng.choice(fds)
        ents.append(f"{f}:{rng.choice(EVS)}")
    return " ".join(ents)


def gen_case(rng, nsteps, mode=None, ring=None, bias=None):
    """mode R: real kernel; S: scripted batches; M: mixed"""
    mode = mode or rng.choice(["R", "R", "S", "S", "M"])
    ring = rng.below(2) if ring is None else ring
    nf = rng.range(2, 6)
    # descriptor numbers: 100.. plus the stdio numbers 0,1,2 and their neighbour 3 (the harness frees them)
    fds = [100]
    pool_hi = [101, 102, 103, 104, 105]; pool_lo = [0, 1, 2, 3]
    while len(fds) < nf:
        f = rng.choice(pool_lo if rng.below(5) < 2 else pool_hi)
        if f not in fds: fds.append(f)
    if rng.below(12) == 0: fds.append(rng.choice([120, 125]))
    streams = rng.below(3) == 0         # stream-type handles (uv_pipe_open): monitors only, no model diff
    body = []
    open_ = set(); nid = 0; hs = []          # hs: [fd, kind p/r/s, closed]
    def init_on(f, kind=None):
        nonlocal nid
        if kind is None:
            r = rng.below(10)
            kind = "s" if (streams and r < 4) else ("r" if r < 6 and not streams else ("r" if r == 9 else "p"))
        body.append({"p": "pinit", "r": "ioinit", "s": "sinit"}[kind] + f" {f}")
        hs.append([f, kind, False]); nid += 1
        return nid - 1
    def start(i):
        k = hs[i][1]
        if k == "p": body.append(f"pstart {i} {rng.choice(UVMASKS[:-1])}")
        elif k == "r": body.append(f"iostart {i} {rng.choice(IOMASKS)}")
        else: body.append(f"sstart {i}")
    def stop(i):
        k = hs[i][1]
        body.append(f"pstop {i}" if k == "p" else f"sstop {i}" if k == "s" else f"iostop {i} {rng.choice(IOMASKS + [ALL4, ALL4])}")
    def close(i):
        k = hs[i][1]
        body.append({"p": "pclose", "r": "ioclose", "s": "sclose"}[k] + f" {i}"); hs[i][2] = True
    # the first handle always gets started so that nwatchers covers the whole range
    body.append(f"openfd 100 {rng.below(4)}"); open_.add(100)
    init_on(100, "p"); body.append(f"pstart 0 {rng.choice(UVMASKS[:-1])}")
    for f in fds[1:]:
        body.append(f"openfd {f} {rng.below(4)}"); open_.add(f)
        i = init_on(f)
        if rng.below(6) != 0: start(i)
        if rng.below(4) == 0: body.append(f"dupfd {f}")
    bfds = [f for f in fds if f <= 125]
    for _ in range(nsteps):
        r = rng.below(30)
        live = [i for i, h in enumerate(hs) if not h[2]]
        if bias == "run": r = 29 if rng.below(2) else r
        if r < 6 and mode != "S":
            body.append(f"peer {rng.choice([1, 1, 1, 2, 3, 4, 5, 6])} {rng.choice(fds)}")
        elif r < 9 and live:
            start(rng.choice(live))
        elif r < 11 and live:
            stop(rng.choice(live))
        elif r < 13 and live:
            close(rng.choice(live))
        elif r < 15:
            f = rng.choice(fds)
            for i, h in enumerate(hs):
                if h[0] == f and not h[2] and rng.below(5) != 0:
                    close(i)
            body.append(f"closefd {f}")
            if rng.below(4) != 0:
                body.append(f"openfd {f} {rng.below(4)}")
                i = init_on(f); start(i)
                if mode != "S" and rng.below(2): body.append(f"peer 1 {f}")
        elif r < 16:
            body.append(f"dupfd {rng.choice(fds)}" if rng.below(3) else f"closedup {rng.below(3)}")
        elif r < 17 and live:
            i = rng.choice(live)
            if hs[i][1] == "r": body.append(f"iofeed {i}")
        elif r < 19 and live:
            # a call libuv itself must refuse without side effects: second uv_poll_init on a watched fd
            body.append(f"pinit {hs[rng.choice(live)][0]}")
        elif r < 20:
            f = rng.choice(fds)
            if f not in open_: body.append(f"openfd {f} {rng.below(4)}"); open_.add(f)
            init_on(f)
        else:
            m = mode if mode != "M" else rng.choice(["R", "S"])
            if m == "R": body.append("run R")
            else:
                nb = rng.choice([1, 1, 1, 2, 2, 3])
                big = rng.below(60) == 0
                bs = [gen_batch(rng, bfds, big and k == 0) for k in range(nb)]
                body.append("run S " + " | ".join(bs))
    body.append("run R" if mode != "S" else "run S " + gen_batch(rng, bfds, False))
    scripts = []
    seen = set()
    for _ in range(rng.range(1, 2 + nid)):
        key = (rng.below(nid), rng.below(3))
        if key in seen: continue
        seen.add(key)
        sops = gen_script_ops(rng, nid, fds, mode)
        if streams and rng.below(2):
            b = rng.below(nid + 1)
            sops.append(rng.choice([f"sclose {b}", f"sstop {b}", f"sstart {b}", f"sclose {b}"]))
        scripts.append(f"on {key[0]} {key[1]} " + " ; ".join(sops))
    return [f"cfg ring={ring}"] + scripts + body


# ----------------------------------------------------------------------------- monitors
def parse_pairs(s):
    out = []
    for tok in s.split():
        body, _, rep = tok.partition("*")
        f, _, m = body.partition(":")
        out += [(int(f), int(m))] * (int(rep) if rep else 1)
    return out


def monitor(case, out):
    """evaluates the property text on the implementation's log; raises Bad; returns info dict"""
    H = {}           # id -> dict(fd, poll, req, active, closed, linger)
    internal = None
    info = {"cbs": 0, "nontrivial": False, "shape": [], "ebadf": 0, "disarm": 0, "eexist": 0, "inval": 0,
            "big": 0, "repoll": 0, "blocks": 0, "api_errors": 0, "stream_cbs": 0, "lowfd_ops": 0, "known_del": []}
    cur_op = None; pend_new = None; op_ctl_ok = []; last_ki = None; op_failed = False; pend_stop = set(); multi = False; damaged = set()
    batch = None; batch_real = False; dirty = set(); expected = {}; in_run = False; run_real = False
    fed = set(); last_ready = None
    runs = [c.split()[1] for c in case if c.startswith("run")]
    nrun = -1

    def watched():
        w = {}
        for i, h in H.items():
            if h["closed"]: continue
            m = uv2poll(h["req"]) if h["poll"] else h["req"]
            if (h["active"] if h["poll"] else m != 0) and m != 0:
                w.setdefault(h["fd"], []).append((i, m))
        return w

    def end_dispatch():
        nonlocal batch
        if batch is not None:
            for i, why in expected.items():
                if why is not None:
                    raise Bad("cb-missing-while-reported",
                              f"handle {i}: the batch reported requested events {why} but no callback came and nobody stopped it")
        batch = None; expected.clear()

    for l in out:
        w = l.split()
        if not w: continue
        if pend_stop and (w[0] == "cb" or (w[0] == "env" and w[1] == "pwait") or w[:2] == ["op", "run"]):
            for i in pend_stop: H[i]["req"] = 0
            pend_stop.clear()
        if w[0] == "cfg":
            internal = int(l.split("internal=")[1].split()[0]); multi = "multi=1" in l; continue
        if w[0] == "#ready":
            last_ready = (int(w[1]), int(w[2]), int(w[3])); continue
        if w[0] == "#ki":
            ki = " ".join(w[1:])
            if op_failed and last_ki is not None and ki != last_ki:
                raise Bad("failed-call-modified-interest",
                          f"`{' '.join(cur_op)}` was refused/failed but the kernel interest list changed: [{last_ki}] -> [{ki}]")
            last_ki = ki; op_failed = False
            continue
        if w[0] == "#reg":
            if not pend_stop:
                reg = dict((int(a), int(b)) for a, b in (x.split(":") for x in w[1:]))
                want = {f: hl[0][0] for f, hl in watched().items()}
                if reg != want:
                    raise Bad("registry-mismatch", f"after `{' '.join(cur_op or [])}`: loop->watchers maps {reg} but the handles "
                              f"that are started and not stopped/closed are {want} (fd: handle)")
            continue
        if w[0] == "#baddata":
            raise Bad("interest-data-mismatch", f"kernel entry of fd {w[1]} carries epoll_event.data {w[2]} instead of the descriptor number")
        if w[0] == "refused": op_failed = True
        if l.startswith("#"): continue
        if w[0] == "op":
            cur_op = w[1:]; op_ctl_ok = []; op_failed = False
            if w[1] == "run":
                end_dispatch(); in_run = True; nrun += 1
                run_real = nrun < len(runs) and runs[nrun] == "R"
            elif w[1] == "peer": dirty.add(int(w[3]))
            if batch is not None and w[1] in ("pstop", "pclose", "pstart", "iostop", "ioclose", "sstop", "sclose"):
                i = int(w[2])
                if i in H and any(f == H[i]["fd"] for f, _ in batch[batch_pos[0]:]):
                    info["nontrivial"] = True
                info["shape"].append(w[1])
            continue
        if w[0] == "new":
            if cur_op and cur_op[0] in ("pinit", "ioinit", "sinit"):
                H[int(w[1])] = {"fd": int(cur_op[1]), "poll": cur_op[0] == "pinit", "req": 0, "active": False,
                                "closed": False, "linger": False, "stream": cur_op[0] == "sinit"}
            continue
        if w[0] == "ret" and cur_op:
            r = int(w[1]); o = cur_op[0]
            if r < 0:
                info["api_errors"] += 1; op_failed = True
                if op_ctl_ok:
                    raise Bad("failed-call-modified-interest",
                              f"`{' '.join(cur_op)}` returned {r} but changed the kernel interest list: {op_ctl_ok}")
            if o in ("pstart", "pstop", "pclose", "iostart", "iostop", "ioclose", "iofeed", "sstart", "sstop", "sclose") and r == 0:
                i = int(cur_op[1]); h = H.get(i)
                if h is None: raise Bad("harness-inconsistent", f"op on unknown id accepted: {cur_op}")
                if o in ("pstart", "iostart", "sstart"): damaged.discard(h["fd"])
                if o == "pstart":
                    h["req"] = int(cur_op[2]) & 15; h["active"] = h["req"] != 0; h["linger"] = False
                elif o == "pstop": h["active"] = False; h["linger"] = False
                elif o in ("pclose", "ioclose", "sclose"): h["closed"] = True; h["active"] = False
                elif o == "sstart": h["req"] |= POLLIN; h["linger"] = True
                elif o == "sstop": h["req"] &= ~POLLIN
                elif o == "iostart": h["req"] |= int(cur_op[2]) & ALL4; h["linger"] = True
                elif o == "iostop": h["req"] &= ~int(cur_op[2])
                elif o == "iofeed": fed.add(i)
                if o != "iofeed" and i in expected: expected[i] = None
            continue
        if w[0] == "env" and w[1] == "epoll_ctl":
            if int(w[3]) < 4: info["lowfd_ops"] += 1
            if w[-1] == "0": op_ctl_ok.append(" ".join(w[2:5])); last_ki = None
            if multi and w[2] == "DEL" and w[-1] == "0" and cur_op and cur_op[0] in ("pstop", "pclose", "pstart", "ioclose", "sclose"):
                # kept finding, narrow form: a handle that is not the watched one on this descriptor number issues the
                # kernel EPOLL_CTL_DEL and thereby removes the entry of the handle that is
                a_id = int(cur_op[1]); f = int(w[3])
                owner = [i for i, m in watched().get(f, [])]
                if owner and owner[0] != a_id:
                    damaged.add(f); info["known_del"].append((a_id, owner[0], f))
            if w[2] == "DEL" and in_run and batch is not None and w[-1] == "0": info["disarm"] += 1
            if w[-1] == "-17": info["eexist"] += 1
            continue
        if w[0] == "env" and w[1] == "pwait":
            end_dispatch()
            block = w[2] == "block=1"
            last_ki = " ".join(w[4:])
            ents = parse_pairs(" ".join(w[4:]))
            info["blocks"] += 1
            if block:
                wt = watched()
                byfd = {}
                for f, m in ents: byfd.setdefault(f, []).append(m)
                for f, hl in wt.items():
                    if len(hl) != 1: raise Bad("harness-inconsistent", f"two watched handles on fd {f}")
                    if f in damaged and f not in byfd: continue      # consequence of the kept finding (see known_del)
                    if byfd.get(f) != [hl[0][1]]:
                        raise Bad("interest-mismatch", f"about to block: fd {f} watched by handle {hl[0][0]} with mask "
                                  f"{hl[0][1]} but the kernel interest list has {byfd.get(f)}")
                for f, ms in byfd.items():
                    if f in wt: continue
                    owners = [h for h in H.values() if h["fd"] == f]
                    if not any((not h["closed"]) and h["linger"] for h in owners):
                        raise Bad("interest-closed-handle", f"about to block: kernel interest list still has fd {f} "
                                  f"(mask {ms}) although every handle on it is closed or was stopped with uv_poll_stop")
            continue
        if w[0] == "env" and w[1] == "poll":
            batch = parse_pairs(" ".join(w[3:])); batch_real = run_real; dirty = set()
            batch_pos = [0]
            if len(batch) == 1024: info["big"] += 1
            wt = watched(); expected.clear()
            for f, m in batch:
                if f in wt:
                    i, req = wt[f][0]
                    if m & req: expected[i] = m & req
            continue
        if w[0] == "cb" and w[1] == "read":
            # stream-type handle (uv_pipe_open): uv__stream_io -> uv__read -> read_cb, possibly several per event
            i = int(w[2]); h = H.get(i); info["cbs"] += 1; info["stream_cbs"] += 1
            if h is None: raise Bad("harness-inconsistent", f"callback for unknown handle {i}")
            if h["closed"] or not h["req"] & POLLIN:
                raise Bad("cb-after-stop", f"read callback `{l}` for stream {i} after uv_read_stop/uv_close returned")
            if batch is None or not any(f == h["fd"] and m & (POLLIN | POLLERR | POLLHUP) for f, m in batch):
                raise Bad("cb-without-readiness", f"read callback `{l}`: the batch had nothing for fd {h['fd']}")
            if int(w[3]) == -4095: h["req"] = 0      # UV_EOF: libuv stopped reading before the callback
            elif int(w[3]) < 0: pend_stop.add(i)     # read error: libuv stops reading after the callback returns
            if i in expected: expected[i] = None
            continue
        if w[0] == "cb" and w[1] in ("poll", "io"):
            i = int(w[2]); h = H.get(i); info["cbs"] += 1
            if h is None: raise Bad("harness-inconsistent", f"callback for unknown handle {i}")
            rq0 = h["req"] | POLLERR | POLLHUP
            if (w[1] == "io" and i in fed and int(w[3]) == POLLOUT and
                    (batch is None or h["req"] == 0 or
                     not any(f == h["fd"] and m & rq0 for f, m in batch[batch_pos[0]:]))):
                fed.discard(i)
                if h["closed"]: raise Bad("cb-after-stop", f"pending callback for closed watcher {i}")
                continue
            req = uv2poll(h["req"]) if h["poll"] else h["req"]
            if h["closed"] or not (h["active"] if h["poll"] else req != 0):
                raise Bad("cb-after-stop", f"callback `{l}` for handle {i} after stop/close returned "
                          f"(closed={h['closed']}, active={h['active']})")
            if batch is None: raise Bad("cb-without-readiness", f"callback `{l}` outside any batch")
            got = [m for f, m in batch if f == h["fd"]]
            if w[1] == "poll":
                st, ev = int(w[3]), int(w[4])
                if st == 0:
                    if ev == 0 or ev & ~h["req"]:
                        raise Bad("cb-unrequested-event", f"handle {i} requested {h['req']} but callback reports {ev}")
                    if not any(m & (req | POLLERR | POLLHUP) for m in got):
                        raise Bad("cb-without-readiness", f"callback `{l}`: batch had nothing for fd {h['fd']}: {got}")
                else:
                    info["ebadf"] += 1
                    if st != -9 or ev != 0 or not any(m & POLLERR for m in got):
                        raise Bad("cb-without-readiness", f"error callback `{l}` without POLLERR in the batch: {got}")
                    h["active"] = False; h["linger"] = True
                if batch_real and st == 0 and h["fd"] not in dirty and last_ready and last_ready[0] == i:
                    rv = last_ready[2]
                    okb = ((RD if rv & (POLLIN | POLLHUP | POLLERR | POLLRDHUP) else 0) |
                           (WR if rv & (POLLOUT | POLLHUP | POLLERR) else 0) |
                           (DC if rv & (POLLRDHUP | POLLHUP | POLLERR) else 0) | (PR if rv & (POLLPRI | POLLHUP | POLLERR) else 0))
                    if ev & ~okb:
                        raise Bad("cb-not-really-ready", f"callback `{l}` but poll(2) on fd {h['fd']} says revents={rv}")
            else:
                ev = int(w[3])
                if ev == 0 or ev & ~(req | POLLERR | POLLHUP):
                    raise Bad("cb-unrequested-event", f"watcher {i} requested {req} but callback reports {ev}")
                if not any(m & (req | POLLERR | POLLHUP) for m in got):
                    raise Bad("cb-without-readiness", f"callback `{l}`: batch had nothing for fd {h['fd']}: {got}")
                if batch_real and h["fd"] not in dirty and last_ready and last_ready[0] == i:
                    rv = last_ready[2]
                    if (ev & ALL4) & ~rv and not rv & (POLLHUP | POLLERR):
                        raise Bad("cb-not-really-ready", f"callback `{l}` but poll(2) on fd {h['fd']} says revents={rv}")
            if i in expected: expected[i] = None
            # position in the batch: first entry of this fd not yet consumed (for the non-triviality rule)
            for k in range(batch_pos[0], len(batch)):
                if batch[k][0] == h["fd"] and batch[k][1] & (req | POLLERR | POLLHUP):
                    batch_pos[0] = k + 1; break
            continue
        if w[0] == "cb" and w[1] == "close":
            end_dispatch(); continue
        if w[0] == "obs":
            kv = dict(x.split("=", 1) for x in w[1:])
            if batch is None or True:
                nf = int(kv["nfds"])
                exp = (internal or 0) + len(watched())
                alt = exp - sum(1 for i in pend_stop if H[i]["req"] and not H[i]["closed"])
                if nf != exp and nf != alt:
                    raise Bad("nfds-mismatch", f"loop->nfds={nf} but {len(watched())} descriptors are watched (+{internal} internal)")
            q = [x for x in kv["wq"].split(",") if x]
            if len(q) != len(set(q)): raise Bad("wq-dup", f"watcher_queue holds a watcher twice: {q}")
            continue
    end_dispatch()
    return info


# ----------------------------------------------------------------------------- running
def run_impl(ctx, exe, case):
    # a case runs in milliseconds (long ring histories: about a second); the cap only bounds a hang
    rc, out, err = ctx.run(exe, text="\n".join(case) + "\n", timeout=10 if len(case) < 400 else 40,
                           env={"ASAN_OPTIONS": "detect_leaks=0:exitcode=99"})
    return rc, out.splitlines(), err


def model_input(case, iout):
    """cfg line and the batches of real-kernel runs come from the implementation's output"""
    runs, cur, cfg = [], None, None
    for l in iout:
        if l.startswith("cfg "): cfg = l
        elif l == "op run": cur = []; runs.append(cur)
        elif l.startswith("env poll ->") and cur is not None: cur.append(l[len("env poll ->"):].strip())
    out, k = [], 0
    for c in case:
        if c.startswith("cfg"): out.append(cfg or c)
        elif c.startswith("run"):
            if c.split()[1] == "R": out.append("run S " + (" | ".join(runs[k]) if k < len(runs) else ""))
            else: out.append(c)
            k += 1
        else: out.append(c)
    return out


def check_case(ctx, exe, case):
    rc, il, err = run_impl(ctx, exe, case)
    if rc == -999:
        lastop = next((l for l in reversed(il) if l.startswith("op ")), "")
        return Bad("harness-timeout", f"the program did not finish (libuv blocked or spinning) after `{lastop}`, "
                   f"{sum(1 for l in il if l.startswith('op '))} ops into the program"), il
    if rc != 0:
        lastop = next((l for l in reversed(il) if l.startswith("op ")), "")
        return Bad("harness-crash", f"harness exited {rc} (abort()/assert/sanitizer inside libuv) after `{lastop}`, "
                   f"{sum(1 for l in il if l.startswith('op '))} ops into the program: {err[-500:]}"), il
    try:
        return monitor(case, il), il
    except Bad as b:
        return b, il
    except (ValueError, IndexError, KeyError) as e:
        return Bad("harness-inconsistent", f"unparsable harness output: {e!r}"), il


def shrink(ctx, exe, case, sig):
    cur = list(case)
    if sig == "harness-timeout":
        # every candidate costs the full time cap: drop whole tail/head chunks only, at most ~20 runs
        n = 0
        for step in (len(cur) // 2, len(cur) // 4, len(cur) // 8):
            while step > 0 and n < 20 and len(cur) > step + 4:
                cand = cur[:-step]
                n += 1
                r, _ = check_case(ctx, exe, cand)
                if isinstance(r, Bad) and r.sig == sig: cur = cand
                else: break
        return cur
    # never shrink away the preamble that makes scripted batches legal (the first handle started on fd 100 sizes
    # loop->watchers; without it a scripted event for fd >= nwatchers trips libuv's own assert on any tree)
    keep = {l for l in cur[:40] if l.startswith("cfg") or l.startswith("openfd 100 ") or l == "pinit 100" or l.startswith("pstart 0 ")}
    i = 1
    while i < len(cur):
        if cur[i] in keep and cur.index(cur[i]) == i:
            i += 1; continue
        cand = cur[:i] + cur[i + 1:]
        r, _ = check_case(ctx, exe, cand)
        if isinstance(r, Bad) and r.sig == sig: cur = cand
        else: i += 1
    return cur


def run_cases(ctx, exe, cases, label):
    with ThreadPoolExecutor(NCPU) as ex:
        res = list(ex.map(lambda c: check_case(ctx, exe, c), cases))
    def has_stream(c):
        return any(x in l for l in c for x in ("sinit ", "sstart ", "sstop ", "sclose "))
    diffable = [k for k, c in enumerate(cases) if not has_stream(c)]
    mtext = "".join("\n".join(model_input(cases[k], res[k][1])) + "\n" for k in diffable)
    ml = ctx.driver(["iowatch"], mtext).splitlines() if diffable else []
    chunks0, cur = [], None
    for l in ml:
        if l.startswith("cfg "):
            cur = []; chunks0.append(cur)
        if cur is not None: cur.append(l)
    chunks = {k: (chunks0[j] if j < len(chunks0) else []) for j, k in enumerate(diffable)}
    hist = ctx.notes.setdefault("hist", {})
    for idx, (c, (r, il)) in enumerate(zip(cases, res)):
        ctx.count()
        if isinstance(r, Bad):
            if r.sig in ctx.known:
                ctx.violation(r.sig, r.what, {"ops": c})
            else:
                small = shrink(ctx, exe, c, r.sig)
                if ctx.violation(r.sig, f"C14 ({label}): {r.what}", {"ops": small}):
                    return False
        iv = [l for l in il if not l.startswith("#")]
        mv = chunks.get(idx, iv)
        if idx not in chunks: hist["monitor_only_stream_cases"] = hist.get("monitor_only_stream_cases", 0) + 1
        if iv != mv:
            k = next((i for i in range(min(len(iv), len(mv))) if iv[i] != mv[i]), min(len(iv), len(mv)))
            ctx.broken_correspondence("io watcher model vs src/unix/{core,linux,poll}.c",
                                      f"line {k}: impl `{iv[k] if k < len(iv) else None}` model `{mv[k] if k < len(mv) else None}` "
                                      f"(after `{iv[k-1] if 0 < k <= len(iv) else ''}`); case {c}")
            ctx.notes.setdefault("diff_cases", []).append(c)
            return False
        ctx.validated()
        if not isinstance(r, Bad):
            if r["nontrivial"]:
                ctx.nontrivial(hashlib.sha1(("|".join(r["shape"]) + "#" + "|".join(l for l in iv if l.startswith("env poll"))).encode()).hexdigest()[:12])
            for k in ("cbs", "ebadf", "disarm", "eexist", "big", "blocks", "api_errors", "stream_cbs", "lowfd_ops"):
                hist[k] = hist.get(k, 0) + r[k]
            hist["cases_ring" + c[0][-1]] = hist.get("cases_ring" + c[0][-1], 0) + 1
            hist["refused"] = hist.get("refused", 0) + sum(1 for l in iv if l == "refused")
            hist["ops"] = hist.get("ops", 0) + sum(1 for l in iv if l.startswith("op "))
            hist["stop_in_batch_cases"] = hist.get("stop_in_batch_cases", 0) + (1 if r["nontrivial"] else 0)
    return True


def gen_long_ring_case(rng, ring=1, target_ops=None):
    """long op history on one loop: hundreds of batched epoll_ctl submissions (past 256, 512, 768 ...) with
    stop-without-DEL + restart (ADD answered EEXIST, retried as MOD at flush time), partial stops (MOD) and
    poll restarts (DEL + ADD) interleaved so that the retries fall at every position of the 256-slot
    submission ring and the 512-slot completion ring"""
    W = rng.range(5, 12)
    target = target_ops or rng.choice([300, 420, 560, 700, 900, 1100])
    c = [f"cfg ring={ring}"]
    kinds = []
    for k in range(W):
        f = 100 + k
        c.append(f"openfd {f} {rng.choice([0, 1, 3])}")
        if rng.below(5) == 0:
            kinds.append("p"); c += [f"pinit {f}", f"pstart {k} {rng.choice([1, 2, 3, 5])}"]
        else:
            kinds.append("r"); c += [f"ioinit {f}", f"iostart {k} {rng.choice(IOMASKS)}"]
    c.append("run S")
    ops = W
    while ops < target:
        n = rng.range(1, W)
        for _ in range(n):
            k = rng.below(W)
            r = rng.below(10)
            if kinds[k] == "p":
                c.append(f"pstart {k} {rng.choice([1, 2, 3, 5, 7])}"); ops += 1
            elif r < 7:
                c += [f"iostop {k} {ALL4}", f"iostart {k} {rng.choice(IOMASKS)}"]; ops += 2      # ADD -> EEXIST -> MOD
            elif r < 9:
                c += [f"iostart {k} {rng.choice(IOMASKS)}", f"iostop {k} {rng.choice([1, 4, 2])}"]; ops += 1   # MOD (or nothing)
            else:
                c += [f"iostop {k} {ALL4}"]                                                        # lingering entry, disarmed on its event
        c.append("run S" if rng.below(4) else f"run S {100 + rng.below(W)}:{rng.choice([1, 4, 5])}")
    c.append("run S")
    return c


def gen_multi_case(rng):
    """discipline off (multi=1): a stopped / never-started handle A and an active handle B on the same descriptor
    number - after close + re-use of the number, or both initialised on one socket - then stop/close of A again, then
    readiness on B.  On the unmodified tree these hit the kept finding (A's EPOLL_CTL_DEL); libuv's own registry
    (loop->watchers, nfds) must stay intact all the same."""
    ring = rng.below(2)
    f = rng.choice([100, 101, 3, 0])
    c = [f"cfg ring={ring} multi=1", "openfd 100 0", "pinit 100", f"pstart 0 {rng.choice([1, 2, 3])}"]   # id 0 sizes the table
    nid = 1
    if f != 100: c.append(f"openfd {f} {rng.choice([0, 0, 1, 3])}")
    akind = rng.choice(["p", "p", "r"])
    if rng.below(2):
        # X: A used, stopped, number closed and re-used, B started on it
        c.append(("pinit" if akind == "p" else "ioinit") + f" {f}"); a = nid; nid += 1
        if f == 100: c.append("pstop 0")
        c.append(f"pstart {a} 1" if akind == "p" else f"iostart {a} 1")
        if rng.below(2): c.append("run R")
        c.append(f"pstop {a}" if akind == "p" else f"iostop {a} {ALL4}")
        # (a raw watcher's entry lingers after a full stop: with a dup kept open, closing the number would strand it -
        #  that is the other kept finding's family, not this class)
        if akind == "p" and rng.below(2): c.append(f"dupfd {f}")
        c += [f"closefd {f}", f"openfd {f} {rng.choice([0, 0, 1])}"]
    else:
        # Y: both initialised on one socket; A possibly started and stopped once
        c.append(("pinit" if akind == "p" else "ioinit") + f" {f}"); a = nid; nid += 1
        if f == 100: c.append("pstop 0")
        if rng.below(2):
            c += [f"pstart {a} 1" if akind == "p" else f"iostart {a} 1"] + (["run R"] if rng.below(2) else []) + \
                 [f"pstop {a}" if akind == "p" else f"iostop {a} {ALL4}"]
    c.append(f"pinit {f}"); b = nid; nid += 1
    c.append(f"pstart {b} {rng.choice([1, 3, 5])}")
    if rng.below(3): c.append("run R")
    # A, idle, is stopped / closed (again)
    c.append(rng.choice([f"pstop {a}", f"pclose {a}", f"pclose {a}"]) if akind == "p" else rng.choice([f"iostop {a} {ALL4}", f"ioclose {a}"]))
    c += [f"peer 1 {f}", "run R", "run R"]
    if rng.below(2): c += [f"pstart {b} 1", f"peer 1 {f}", "run R"]
    return c


def many_fds_case(ring, n=270):
    """more than 256 queued watchers: the ctl ring fills and is flushed inside uv__epoll_ctl_prep"""
    c = [f"cfg ring={ring}", "on 0 0 pclose 5 ; pstop 7"]
    for k in range(n):
        c += [f"openfd {100 + k} 3", f"pinit {100 + k}", f"pstart {k} 1"]
    c += ["run R"] + [f"peer 1 {100 + k}" for k in range(0, n, 7)] + ["run R"]
    c += [f"pstart {k} 3" for k in range(0, n, 2)] + ["run R", "run R"]
    return c


def run(ctx):
    ctx.trusted += ["interposition harness harness/c14_sim.c (epoll_ctl, epoll_pwait, syscall for io_uring_setup)",
                    "/proc/self/fdinfo/<epoll fd> as the kernel's interest list; poll(2) as ground truth of readiness",
                    "clang/ASan/UBSan"]
    ctx.assumptions += ["one watcher per descriptor (uv_poll_init/uv_poll_start enforce it; raw watchers are guarded the same way)",
                        "a descriptor is closed by the user only after every handle on it is closed, stopped with uv_poll_stop, or never started",
                        "which events the kernel reports is an input (scripted, or whatever the real kernel returned)"]
    ctx.trusted += ["tools/gen_lean.py (clang AST -> Lean for the loop-free kernels next_power_of_two, maybe_resize_size, io_start, io_stop, io_active, io_close) and UvModel/CSem.lean"]
    # Tie A: table sizing and the uv__io_start/stop/active decisions regenerated from /repo; GenEq/C14 re-proves them = IoWatch's
    gen_ok = ctx.gen_lean(need=["C14"])
    ok = ctx.require_lean(["UvModel.GenEq.C14", "UvModel.Props.C14", "UvModel.Props.QueueRefine"]) and gen_ok
    exe = ctx.harness("c14_sim", ["harness/c14_sim.c"], link_lib=True)
    if exe is None:
        return
    # src/queue.h (watcher_queue, pending_queue, ...) against the List abstraction of the models: checks/queue_tie.py
    import queue_tie
    ctx.trusted += ["harness/queue_ops.c (the real queue.h inline functions on an array of nodes, indices printed)"]
    if queue_tie.run(ctx, ok):
        return
    if ctx.replay:
        rp = json.loads(Path(ctx.replay).read_text())["replay"]
        run_cases(ctx, exe, [rp["ops"]], "replay")
        return
    rng = ctx.rng
    cdir = VERIF / "corpus" / "C14"
    ccases = [[l for l in p.read_text().splitlines() if l.strip()] for p in sorted(cdir.glob("*.txt"))] if cdir.exists() else []
    ccases += [many_fds_case(1), many_fds_case(0)] if not ctx.quick else [many_fds_case(1, 262)]
    lrng = rng.fork()
    lcases = [gen_long_ring_case(lrng, 1) for _ in range(ctx.scale(5, 60))] + [gen_long_ring_case(lrng, 0, 300)]
    good = run_cases(ctx, exe, ccases, "corpus")
    # suspected defects found while building this check (model agrees with the code; the discipline switch
    # multi=1 is needed to reach them).  They are replayed only when known_findings.txt lists their signature.
    fdir = VERIF / "corpus" / "C14-findings"
    IDLE_DEL = "poll-stop-of-inactive-second-handle-unregisters-active-one"
    def run_discipline_off(c, sig, expect, label):
        """programs that need multi=1.  Only the narrow symptom of the kept finding is mapped to its signature (the
        kernel DEL issued by a handle that is not the watched one: info['known_del']; resp. the expected monitor of
        the EBADF finding); every other monitor failure - registry, nfds, callbacks - is reported under its own signature"""
        r, il = check_case(ctx, exe, c)
        ctx.count()
        if isinstance(r, Bad):
            if expect is not None and r.sig == expect:
                ctx.violation(sig, r.what, {"ops": c}); return True
            ctx.violation(r.sig, f"C14 ({label}): {r.what}", {"ops": shrink(ctx, exe, c, r.sig)})
            return False
        if r["known_del"]:
            a, b, f = r["known_del"][0]
            ctx.violation(IDLE_DEL, f"handle {a}, which is not the watched handle on descriptor {f}, issued EPOLL_CTL_DEL for it and removed "
                          f"the kernel entry of the active handle {b}", {"ops": c})
            ctx.notes["idle_del_programs"] = ctx.notes.get("idle_del_programs", 0) + 1
        elif label.endswith(".txt"):
            ctx.notes.setdefault("findings_not_reproduced", []).append(label)
        else:
            ctx.notes["discipline_off_programs_without_del"] = ctx.notes.get("discipline_off_programs_without_del", 0) + 1
        iv = [l for l in il if not l.startswith("#")]
        mv = ctx.driver(["iowatch"], "\n".join(model_input(c, il)) + "\n").splitlines()
        if iv != mv and not any(x in l for l in c for x in ("sinit ", "sstart ", "sstop ", "sclose ")):
            k = next((i for i in range(min(len(iv), len(mv))) if iv[i] != mv[i]), min(len(iv), len(mv)))
            ctx.broken_correspondence("io watcher model vs src/unix/{core,linux,poll}.c (discipline off)",
                                      f"line {k}: impl `{iv[k] if k < len(iv) else None}` model `{mv[k] if k < len(mv) else None}`; case {c}")
            return False
        ctx.validated()
        return True
    # a broken *proof* obligation (Tie A / theorem) must not keep these programs from running: they are monitors
    fgood = good and not any(b[0] == "correspondence" for b in ctx.broken) and not ctx.violations
    for fname, sig, expect in FINDINGS:
        if fgood and sig in ctx.known and (fdir / fname).exists():
            c = [l for l in (fdir / fname).read_text().splitlines() if l.strip()]
            fgood = run_discipline_off(c, sig, None if sig == IDLE_DEL else expect, fname)
    if fgood and IDLE_DEL in ctx.known:
        mrng = rng.fork()
        for k in range(ctx.scale(60, 1500)):
            if not run_discipline_off(gen_multi_case(mrng), IDLE_DEL, None, "two handles on one descriptor number"):
                fgood = False; break
    if not fgood: good = False          # fall through to the monitor search below
    total = ctx.scale(1200, 40000)
    done = 0
    while good and done < total and not ctx.violations:
        cases = [gen_case(rng, rng.range(4, ctx.scale(16, 40))) for _ in range(min(400, total - done))]
        if done == 0: ctx.sample({"program": cases[0]})
        good = run_cases(ctx, exe, cases, "random")
        done += len(cases)
    if good and not ctx.violations and not ctx.broken:
        # long op histories through the ctl ring; also on an unsanitised build, so that an out-of-bounds read in the
        # ring bookkeeping shows up as what it does to the kernel's interest list / as libuv's own abort()
        pexe = ctx.harness("c14_sim_plain", ["harness/c14_sim.c"], variant="plain", link_lib=True)
        good = run_cases(ctx, exe, lcases, "long ring history")
        if good and pexe is not None:
            run_cases(ctx, pexe, lcases, "long ring history, plain build")
        ctx.notes["long_ring_histories"] = f"{len(lcases)} programs, 300-1100 batched epoll_ctl submissions each, EEXIST retries throughout"
    if ctx.broken and not ctx.violations:
        ctx.log("obligation broken; searching for a failing input with the monitors")
        srng = SplitMix(ctx.seed + 1414)
        n = 0
        for rnd in range(ctx.scale(60, 200)):
            cases = [gen_case(srng, srng.range(4, 40), bias="run" if rnd % 2 else None) for _ in range(400)]
            with ThreadPoolExecutor(NCPU) as ex:
                res = list(ex.map(lambda c: check_case(ctx, exe, c), cases))
            n += len(cases)
            for c, (r, il) in zip(cases, res):
                if isinstance(r, Bad) and r.sig not in ctx.known:
                    ctx.violation(r.sig, f"C14 (search): {r.what}", {"ops": shrink(ctx, exe, c, r.sig)})
                    break
            if ctx.violations: break
        ctx.notes["search"] = f"{n} extra programs run against the monitors after an obligation broke"
    ctx.cov["rule"] = ("random programs: 2-6 descriptors (socketpair/pipe/eventfd) at fixed numbers, poll handles and raw "
                       "watchers, start/restart/stop/close/closefd+reopen/dup from main and from callback scripts, peers "
                       "making descriptors ready; runs against the real kernel (R) or scripted batches (S: stale fds, "
                       "duplicates, bare ERR/HUP, 1024-entry batches), ctl ring on/off; plus >256-descriptor corpus cases. "
                       "non-trivial = a callback stops/closes/restarts a watcher whose fd is still ahead in the batch being "
                       "dispatched; distinct by (ops done in callbacks, batch sequence)")
