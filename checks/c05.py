"""C05 — stream writes (src/unix/stream.c write side).
Proof: UvModel.Props.C05 over the model UvModel.StreamW.  Tie B: (1) unit harness over
uv__write_req_update alone (exhaustive small buffer lists x n), (2) the real library writing to a
real socketpair / TCP loopback / FIFO with write/writev/sendmsg/shutdown scripted per call, ops and
scripted callbacks from the line protocol; every output line is diffed against `uvdriver c05`.
Monitors evaluate the property text on the implementation's log and on what the peer end read."""
import itertools
from vlib import *

MANIFEST = {
 "text": "Lean 4 theorems over an executable model of uv_write2/uv_try_write2/uv__write/uv__try_write/"
         "uv__write_req_update/uv__write_callbacks/uv__drain/uv_shutdown/close (all op sequences, all callback scripts, "
         "all syscall outcome schedules): OS byte stream is the in-order prefix of what was submitted, one callback per "
         "request in submission order, status 0 only if fully accepted, write_queue_size exact, try_write never overtakes, "
         "shutdown(2) only with an empty queue and EPIPE afterwards, descriptor sent once, close cancels. The model is tied "
         "to the working tree by running the real library on real sockets with every write syscall scripted and diffing "
         "every line with the model (debug and NDEBUG builds of the library), plus independent monitors on the peer's "
         "bytes and the callback log (order, exactly-once, status, write_queue_size, EOF after last byte, EPIPE after "
         "shutdown, try_write refusal, descriptor count, liveness after the OS accepts everything).",
 "note": "Trusted: Lean kernel; the interposition harness (write/writev/sendmsg/shutdown defined in the harness, partial "
         "writes performed for real so the peer sees them); clang/ASan. Not modelled: UV_HANDLE_BLOCKING_WRITES (tty only), "
         "read side, a closing send_handle, macOS. Refused vector allocation in uv_write2 (>4 buffers) is a scripted input "
         "(uv_replace_allocator); loop->active_reqs.count is checked against the requests owed a callback. POLLOUT is assumed deliverable whenever armed "
         "(small payloads on an empty socket buffer).",
 "design": "DESIGN.md §3 C05",
 "technique": "Lean 4 proof over executable model + correspondence (unit include + whole-library syscall interposition) + monitors",
}

ALT = {}                   # NDEBUG harness, set by run()
MAX_SIGS = 3              # stop collecting after this many distinct violation signatures
KINDS = ["pipe", "pipe", "tcp", "tcp", "ipc", "ipc", "fifo", "tcpconn", "tcpfail"]
HARD = [32, 104, 110, 5]          # EPIPE ECONNRESET ETIMEDOUT EIO
SIG_SHUT_ORDER = "shutdown-cb-before-earlier-write-cb"


def byte_of(tag, off):
    return (tag * 131 + off * 7 + 3) % 251


def expand(b):
    out = []
    for it in b.split(","):
        if "x" in it:
            a, k = it.split("x"); out += [int(a)] * int(k)
        else:
            out.append(int(it))
    return out


# ----------------------------------------------------------------------------- generation
def gen_bufs(rng, big_ok):
    r = rng.below(20)
    if big_ok and r == 0:
        return rng.choice(["1x1030", "0x1024,3", "1x1023,0,2,1", "0x1030", "2x1025", "1x1024", "0x1023,5,5"])
    if r < 3:
        return ",".join(["0"] * rng.range(1, 4))
    if r < 6:   # data followed by a run of empty buffers (request stays queued with 0 bytes left)
        head = [str(rng.choice([1, 2, 3, 5])) for _ in range(rng.range(1, 2))]
        return ",".join(head + ["0"] * rng.range(2, 4))
    n = rng.choice([1, 2, 3, 4, 5, 5, 6, 9])     # > 4 buffers: uv_write2 heap-allocates the vector
    return ",".join(str(rng.choice([0, 1, 1, 2, 3, 4, 7])) for _ in range(n))


def gen_env(rng, n):
    style = rng.below(6)
    out = []
    for _ in range(n):
        r = rng.below(20)
        if style == 0:
            out.append("k" + str(rng.choice([1, 2, 1000000])))
        elif r < 9:
            out.append("k" + str(rng.choice([0, 1, 1, 2, 2, 3, 5, 8, 1000, 1000000])))
        elif r < 12:
            out.append("e11")
        elif r < 14:
            out.append("e105")
        elif r < 17:
            out += ["e4"] * rng.range(1, 3)
        elif r < 18 and style >= 3:
            out.append("e" + str(rng.choice(HARD)))
        else:
            out.append("k1000000")
    return out


def gen_op(rng, ipc, in_script, big_ok, bias=None):
    r = rng.below(20)
    if bias == "shut" and r < 6:
        return "s"
    if r < 9:
        b = gen_bufs(rng, big_ok)
        h = "h" if (ipc and (rng.chance(1, 3) or "x" in b)) or rng.chance(1, 25) else ""
        m = "m" if rng.chance(1, 6) else ""          # the allocator refuses the next uv__malloc during this call
        return f"w{m}{h}{':' if in_script else ' '}{b}"
    if r < 13:
        h = "h" if (ipc and rng.chance(1, 3)) or rng.chance(1, 25) else ""
        return f"t{h}{':' if in_script else ' '}{gen_bufs(rng, False)}"
    if r < 15:
        return "s"
    if r < 16:
        return "c"
    return None   # caller inserts run / env


def gen_backlog_case(rng):
    """queue depths around the 32-request starvation cap of uv__write: one request held back by
    EAGAIN (or a partial write), N small requests queued behind it, then the OS accepts (almost)
    everything so that many requests complete within ONE uv__write pass"""
    kind = rng.choice(["pipe", "tcp", "ipc", "fifo", "tcpconn"])
    n = rng.choice([30, 31, 32, 33, 34, 35, 63, 64, 65, 66, 67, 70, 100])
    lines = [f"open {kind}"]
    first = rng.choice(["e11", "e105", "k1", "e4 e11"])
    if kind != "tcpconn":
        lines.append("env " + first)
    for k in sorted(set(rng.below(n + 2) for _ in range(rng.choice([0, 0, 1, 3])))):
        ops = [o for o in (gen_op(rng, kind == "ipc", True, False) for _ in range(rng.range(1, 2))) if o]
        if ops:
            lines.append(f"script {k} " + " ".join(ops))
    lines.append("w " + rng.choice(["3", "2,2", "5,0,1"]))
    for i in range(n):
        lines.append("w " + rng.choice(["1", "1", "2", "1,1", "0", "3,0"]))
        if rng.chance(1, 40):
            lines.append(rng.choice(["t 1", "s", "run"]))
    tail = rng.below(6)
    if tail == 0:      # a partial write / EAGAIN / hard error somewhere inside the big pass
        pos = rng.below(n)
        lines.append("env " + " ".join(["k1000000"] * pos + [rng.choice(["k1", "e11", "e32", "e4", "k0"])]))
    elif tail == 1:
        lines.append("s")
    elif tail == 2:
        lines += ["c"]
    if tail != 0 and rng.chance(1, 2):
        lines.append("envclear")
    lines += ["run"] * rng.choice([1, 2, 3, 5])
    if rng.chance(1, 3):
        lines += ["c", "run"]
    lines += ["envclear", "run", "run", "run", "end"]
    return lines


def gen_case(rng, nsteps, bias=None):
    if bias is None and rng.chance(1, 10):
        return gen_backlog_case(rng)
    kind = rng.choice(KINDS)
    ipc = kind == "ipc"
    lines = [f"open {kind}"]
    if rng.chance(4, 5):
        lines.append("env " + " ".join(gen_env(rng, rng.range(1, 12))))
    nscripts = rng.choice([0, 0, 1, 2, 4])
    for k in sorted(set(rng.below(8) for _ in range(nscripts))):
        ops = [o for o in (gen_op(rng, ipc, True, False, bias) for _ in range(rng.range(1, 3))) if o]
        if ops:
            lines.append(f"script {k} " + " ".join(ops))
    bigs = 0
    for _ in range(nsteps):
        o = gen_op(rng, ipc, False, bigs < 2, bias)
        if o is None:
            lines.append("run" if rng.chance(3, 4) else "env " + " ".join(gen_env(rng, rng.range(1, 6))))
        else:
            if "x" in o: bigs += 1
            lines.append(o)
    lines += ["run"] * rng.range(0, 2)
    if rng.chance(2, 3):
        lines += ["envclear"] + ["run"] * rng.choice([3, 6, 12])   # the OS accepts everything from here on
    if rng.chance(1, 2):
        lines += ["c", "run"]
    lines += ["run", "end"]
    return lines


# ----------------------------------------------------------------------------- monitors
class Bad(Exception):
    def __init__(self, sig, what):
        super().__init__(what); self.sig, self.what = sig, what


def monitor(case, out):
    """The property text evaluated on the implementation's log + the bytes the peer end read.
    Independent of the Lean model: own bookkeeping of submissions, callbacks and sizes."""
    kind = case[0].split()[1]
    it = iter([l for l in out if not l.startswith("#")])
    for l in out:
        if l.startswith("sys ") and l.split()[1] != "shutdown" and int(l.split()[2]) > 1024:
            raise Bad("iov-count-exceeds-IOV_MAX", f"libuv handed {l.split()[2]} iovecs to {l.split()[1]}(2): the kernel answers EMSGSIZE and valid data is never sent")

    for l in out:
        if l.startswith("#harness-env-failure"):
            raise Bad("write-syscall-on-unwritable-fd", "a write reached the descriptor after shutdown(2)/in a state where the kernel refuses it: " + l)
        if l.startswith("#harness-mismatch"):
            raise Bad("harness-mismatch", l)
    scripts = {}
    subs = []           # submissions in call order: dict(id, kind 'w'|'t', total, ret, cbstatus, cbtime, t_accept)
    byid = {}
    events = []         # (time, what, payload) for the post-hoc wqs check
    st = dict(hard_seen=set(), shut_while_connecting=False, connecting=kind in ("tcpconn", "tcpfail"), shutdown_ok_at=None, shutsys_ok=False, closed_api=False,
              ncb=0, nextid=0, t=0, closecb=False, lastcb=-1, shutcb=False)
    sysacc = []         # (time, n, in_try) accepted bytes
    obs_points = []     # (time, wqs)
    tries = []          # (time, rc, #syscalls, connecting) per uv_try_write
    peer, eof = None, None

    def tick():
        st["t"] += 1; return st["t"]

    def api(opw, nxt):
        """consume the lines of one API op: sys* ret obs"""
        op = opw[0]
        sys_lines = []
        t0 = tick()
        l = nxt()
        while l.startswith("sys "):
            sys_lines.append(l); l = nxt()
        if not l.startswith("ret "):
            raise Bad("log-shape", f"expected ret after `{' '.join(opw)}`, got `{l}`")
        rc = int(l.split()[1])
        o = nxt()
        if not o.startswith("obs wqs="):
            raise Bad("log-shape", f"expected obs, got `{o}`")
        wqs = int(o.split("=")[1])
        nomem = op in ("wm", "wmh")
        if nomem:
            op = "w" + op[2:]
        if op in ("w", "wh", "t", "th"):
            sid = st["nextid"]; st["nextid"] += 1
            lens = expand(opw[1]); total = sum(lens)
            if op in ("t", "th"):
                eagain_sys = any(int(sl.split()[4]) in (-11, -105) for sl in sys_lines)
                tries.append((t0, rc, len(sys_lines), st["connecting"], eagain_sys,
                              st["closed_api"] or st["shutdown_ok_at"] is not None))
                if rc > total:
                    raise Bad("try-write-ret", f"uv_try_write returned {rc} > {total}")
            for sl in sys_lines:
                w = sl.split(); res = int(w[4])
                if res < 0 and res not in (-11, -105, -4):
                    st["hard_seen"].add(res)
                if st["shutsys_ok"] and res > 0:
                    raise Bad("bytes-after-shutdown", f"{sl} after a successful shutdown(2)")
                if res > 0:
                    sysacc.append((tick(), res, op in ("t", "th")))
            if st["shutdown_ok_at"] is not None and op in ("w", "wh") and rc not in (-32, -9):
                raise Bad("write-after-shutdown", f"uv_write after uv_shutdown returned {rc}, expected UV_EPIPE")
            if st["shutdown_ok_at"] is not None and op in ("t", "th") and rc >= 0:
                raise Bad("write-after-shutdown", f"uv_try_write after uv_shutdown returned {rc}")
            if st["closed_api"] and rc >= 0:
                raise Bad("write-after-close", f"write on a closing handle returned {rc}")
            if rc == -12 and not (nomem and len(lens) > 4):
                raise Bad("enomem-unasked", f"uv_write returned UV_ENOMEM although no allocation was refused ({len(lens)} buffers)")
            if nomem and len(lens) > 4 and rc not in (-12, -9, -32, -22):
                raise Bad("enomem-ignored", f"uv_write with {len(lens)} buffers returned {rc} although the vector allocation was refused")
            if op in ("w", "wh") and rc < 0 and sys_lines:
                raise Bad("refused-write-made-syscalls", f"uv_write returned {rc} but made {len(sys_lines)} write syscalls")
            if (op == "wh" and rc == 0) or (op == "th" and rc > 0):
                st["handle_subs"] = st.get("handle_subs", 0) + 1
            if op in ("w", "wh") and rc == 0:
                s = dict(id=sid, kind="w", total=total, nbufs=len(lens), cbstatus=None, cbtime=None, t_accept=tick())
                subs.append(s); byid[sid] = s
            elif op in ("t", "th") and rc > 0:
                subs.append(dict(id=sid, kind="t", total=rc, cbstatus=0, cbtime=None, t_accept=tick()))
        elif op == "s":
            if sys_lines:
                raise Bad("log-shape", "syscall inside uv_shutdown")
            if rc == 0:
                st["shutdown_ok_at"] = tick()
                st["shut_while_connecting"] = st["connecting"] or st.get("in_conncb", False)
        elif op == "c":
            if rc == 0:
                st["closed_api"] = True
        obs_points.append((tick(), wqs))

    def callback_line(l, nxt):
        w = l.split()
        if w[0] == "cb":
            rid, status = int(w[1]), int(w[2])
            s = byid.get(rid)
            if s is None:
                raise Bad("cb-unknown", f"callback for request {rid} that was never accepted")
            if s["cbstatus"] is not None:
                raise Bad("cb-twice", f"second callback for request {rid}")
            if rid < st["lastcb"]:
                raise Bad("cb-order", f"callback of request {rid} after {st['lastcb']}")
            st["lastcb"] = rid
            for e in subs:
                if e["kind"] == "w" and e["id"] < rid and e["cbstatus"] is None:
                    raise Bad("cb-order", f"callback of request {rid} before earlier request {e['id']}")
            if status > 0:
                raise Bad("cb-status-not-an-error", f"callback of request {rid} got status {status}: neither 0 nor a UV_E* code")
            if status < 0 and status != -125 and status not in st["hard_seen"] and not st.get("conn_failed"):
                raise Bad("cb-status-unexplained", f"callback of request {rid} got status {status} but no write syscall failed with that errno")
            s["cbstatus"] = status; s["cbtime"] = tick()
        elif w[0] == "shutcb":
            if st["shutcb"]:
                raise Bad("shutcb-twice", "second shutdown callback")
            st["shutcb"] = True
            early = [e["id"] for e in subs if e["kind"] == "w" and e["cbstatus"] is None and e["t_accept"] < (st["shutdown_ok_at"] or 0)]
            if early:
                raise Bad(SIG_SHUT_ORDER, f"shutdown callback ran before the callbacks of earlier writes {early}")
        elif w[0] == "conncb":
            st["connecting"] = False; st["in_conncb"] = True
            if int(w[1]) < 0:
                st["conn_failed"] = True      # never connected: no completion is owed to a shutdown request
        elif w[0] == "closecb":
            st["closecb"] = True
        k = st["ncb"]; st["ncb"] += 1
        for opw in scripts.get(k, []):
            api(opw, nxt)
        st["in_conncb"] = False

    def nxt():
        try:
            return next(it)
        except StopIteration:
            raise Bad("log-ended", "implementation log ended early")

    for cmd in case:
        w = cmd.split()
        if w[0] == "open":
            if nxt() != "opened": raise Bad("log-shape", "no opened")
        elif w[0] == "env":
            pass
        elif w[0] == "envclear":
            st["clear_runs"] = 0; st["clear_t"] = tick()
        elif w[0] == "script":
            scripts[int(w[1])] = [x.split(":") for x in w[2:]]
        elif w[0] == "run":
            while True:
                l = nxt()
                if l.startswith("ran "):
                    obs_points.append((tick(), int(l.split("=")[1])))
                    if "clear_runs" in st and not st["closed_api"]:
                        st["clear_runs"] += 1
                        # liveness: the OS has accepted everything since `envclear`.  One loop iteration per
                        # buffer of the requests still owed is enough (an empty buffer costs one iteration).
                        need = 2 + sum(e["nbufs"] for e in subs if e["kind"] == "w" and (e["cbtime"] is None or e["cbtime"] > st["clear_t"]))
                        if st["clear_runs"] >= need:
                            stuck = [e["id"] for e in subs if e["kind"] == "w" and e["cbstatus"] is None]
                            if stuck:
                                raise Bad("request-never-completes", f"requests {stuck} got no callback although the descriptor accepted every write for {st['clear_runs']} loop iterations")
                            if st["shutdown_ok_at"] is not None and not st["shutcb"] and not st.get("conn_failed"):
                                if st["shut_while_connecting"]:
                                    raise Bad("shutdown-during-connect-never-completes", "uv_shutdown returned 0 while connecting (or inside the connect callback); connect completed, nothing queued, but neither shutdown(2) nor the shutdown callback happened")
                                raise Bad("shutdown-never-completes", f"uv_shutdown accepted, queue drained, but no shutdown callback after {st['clear_runs']} loop iterations")
                    break
                if l.startswith("sys shutdown"):
                    if st["shutdown_ok_at"] is None:
                        raise Bad("shutdown-unasked", "shutdown(2) without uv_shutdown")
                    if int(l.split()[2]) == 0:
                        st["shutsys_ok"] = True
                        # post-hoc check below: nothing queued may still be unsent (bytes-after-shutdown)
                elif l.startswith("sys "):
                    res = int(l.split()[4])
                    if res < 0 and res not in (-11, -105, -4):
                        st["hard_seen"].add(res)
                    if st["closed_api"]:
                        raise Bad("syscall-after-close", l)
                    if st["shutsys_ok"] and res > 0:
                        raise Bad("bytes-after-shutdown", f"{l} after a successful shutdown(2): peer sees EOF before these bytes")
                    if res > 0:
                        sysacc.append((tick(), res, False))
                elif l.split()[0] in ("cb", "shutcb", "conncb", "closecb"):
                    callback_line(l, nxt)
                else:
                    raise Bad("log-shape", f"unexpected `{l}` in run")
        elif w[0] == "end":
            p = nxt()
            if not p.startswith("peer"): raise Bad("log-shape", f"no peer line: {p}")
            hx = p[5:].strip()
            peer = [int(hx[i:i + 2], 16) for i in range(0, len(hx), 2)]
            eof = int(nxt().split()[1])
        else:
            api(w, nxt)

    # ---- bytes: peer stream = in call order, a prefix of each submission; gaps only at failed requests
    pos = 0
    for s in subs:
        n = 0
        while n < s["total"] and pos + n < len(peer) and peer[pos + n] == byte_of(s["id"], n):
            n += 1
        s["sent"] = n; pos += n
    if pos != len(peer):
        raise Bad("peer-bytes", f"peer received bytes that are not the in-order concatenation of submitted data (matched {pos} of {len(peer)})")
    for i, s in enumerate(subs):
        if s["kind"] == "t" and s["sent"] != s["total"]:
            raise Bad("peer-bytes", f"uv_try_write #{s['id']} returned {s['total']} but peer got {s['sent']} of them")
        if s["kind"] == "w" and s["cbstatus"] == 0 and s["sent"] != s["total"]:
            raise Bad("status-0-not-all-sent", f"request {s['id']} completed with status 0 but peer got {s['sent']} of {s['total']} bytes")
        if s["sent"] < s["total"] and any(x["sent"] > 0 for x in subs[i + 1:]):
            if not (s["kind"] == "w" and s["cbstatus"] not in (0, None)):
                raise Bad("peer-gap", f"bytes of request {s['id']} missing ({s['sent']}/{s['total']}) although later data was sent and it did not fail")
    if st["closecb"]:
        for s in subs:
            if s["kind"] == "w" and s["cbstatus"] is None:
                raise Bad("cb-missing", f"request {s['id']} never got its callback although the handle was closed")
    td = next((l for l in out if l.startswith("#teardown ")), None)
    if td:
        kv = dict(x.split("=") for x in td.split()[1:])
        if int(kv["owed_w"]) > 0:
            raise Bad("write-cb-never-delivered", f"every handle was closed and the loop run, but {kv['owed_w']} accepted write request(s) never got a callback ({kv['reqs']} requests still active, loop alive={kv['alive']})")
        if int(kv["owed_s"]) > 0:
            raise Bad("shutdown-cb-never-delivered", "every handle was closed and the loop run, but the accepted shutdown request never got its callback")
        if int(kv["alive"]) or int(kv["reqs"]):
            raise Bad("loop-never-idle-after-close", f"all handles closed and no callback owed, but the loop stays alive ({kv['reqs']} active requests)")
    nfds = next((int(l.split()[1]) for l in out if l.startswith("#fds ")), 0)
    nh = st.get("handle_subs", 0)
    if nfds > nh:
        raise Bad("send-handle-resent", f"peer received {nfds} descriptors for {nh} successful uv_write2/uv_try_write2 calls with a handle")
    nreqs = next((int(l.split()[1]) for l in out if l.startswith("#reqs ")), None)
    if nreqs is not None:
        owed = sum(1 for s in subs if s["kind"] == "w" and s["cbstatus"] is None)
        owed += 1 if (st["shutdown_ok_at"] is not None and not st["shutcb"]) else 0
        owed += 1 if st["connecting"] else 0
        if nreqs != owed:
            raise Bad("active-reqs-count", f"loop->active_reqs.count = {nreqs} but {owed} requests are owed a callback (a refused or completed request still counts as active, or the reverse)")
    if st["shutsys_ok"] and not eof:
        raise Bad("eof-missing", "shutdown(2) succeeded but the peer saw no EOF")
    if eof and not (st["shutsys_ok"] or st["closed_api"]):
        raise Bad("eof-early", "peer saw EOF without shutdown/close")
    # ---- write_queue_size at every observation = bytes of not-yet-called-back requests not yet accepted
    def unsent_at(t):
        outstanding = [s for s in subs if s["kind"] == "w" and s["t_accept"] < t and (s["cbtime"] is None or s["cbtime"] > t)]
        acc = sum(n for (ta, n, tr) in sysacc if ta < t and not tr)
        done = sum(s["sent"] for s in subs if s["kind"] == "w" and s["cbtime"] is not None and s["cbtime"] < t)
        return sum(s["total"] for s in outstanding) - (acc - done)
    for (t0, rc, nsys, conn, eagain_sys, dead) in tries:
        q = unsent_at(t0)
        if (q > 0 or conn) and (rc != -11 or nsys):
            raise Bad("try-write-overtakes", f"uv_try_write with {q} queued unsent bytes (connecting={conn}) returned {rc} and made {nsys} syscalls")
        if q == 0 and not conn and not dead and rc == -11 and not eagain_sys:
            raise Bad("try-write-spurious-eagain", "uv_try_write returned UV_EAGAIN on an idle stream (nothing queued, not connecting) without the OS refusing anything")
    for (t, wqs) in obs_points:
        exp = unsent_at(t)
        if wqs != exp:
            raise Bad("wqs", f"write_queue_size {wqs}, but unsent bytes of requests without callback = {exp}")
    return dict(partial=any(0 < n for (_, n, _) in sysacc), ncb=st["ncb"], subs=len(subs))


# ----------------------------------------------------------------------------- running
CASE_TIMEOUT = 3          # seconds; a correct run of one program takes milliseconds


def run_impl(ctx, exe, case, timeout=CASE_TIMEOUT):
    env = {"ASAN_OPTIONS": "detect_leaks=0:exitcode=99"}
    rc, out, err = ctx.run(exe, text="\n".join(case) + "\n", timeout=timeout, env=env)
    if rc == -999 and timeout == CASE_TIMEOUT:
        # confirm a hang once, alone (the machine may just have been busy)
        rc, out, err = ctx.run(exe, text="\n".join(case) + "\n", timeout=4 * CASE_TIMEOUT, env=env)
    return rc, out.splitlines(), err


def model_input(case, iout):
    d = next((l[1:] for l in iout if l.startswith("#d=")), None)
    return [(c + " " + d) if (d and c.startswith("open tcpfail")) else c for c in case]


def check_case(ctx, exe, case, do_model=True):
    """returns (monitor exception or None, impl lines)"""
    rc, il, err = run_impl(ctx, exe, case)
    if rc == -999:
        return Bad("harness-hang", "the program did not finish within the per-case timeout (libuv call or loop iteration never returns)"), il
    if rc not in (0, 3):
        return Bad("harness-crash", f"harness exited {rc}: {err[-600:]}"), il
    try:
        info = monitor(case, il)
    except Bad as b:
        return b, il
    if rc != 0:
        return Bad("harness-crash", f"harness exited {rc}: {err[-300:]}"), il
    return info, il


def shrink(ctx, exe, case, sig, budget=30):
    """greedy line removal keeping the same signature, within a time budget"""
    cur = list(case)
    i = 1
    t_end = time.time() + budget
    while i < len(cur) - 1 and time.time() < t_end:
        cand = cur[:i] + cur[i + 1:]
        r, _ = check_case(ctx, exe, cand)
        if isinstance(r, Bad) and r.sig == sig:
            cur = cand
        else:
            i += 1
    return cur


def run_sim(ctx, exe, cases, label):
    """implementation runs in parallel; the model is run once over the whole batch"""
    with ThreadPoolExecutor(NCPU) as ex:
        res = list(ex.map(lambda c: check_case(ctx, exe, c), cases))
    mtext = "".join("\n".join(model_input(c, il)) + "\n" for c, (r, il) in zip(cases, res))
    ml = ctx.driver(["c05"], mtext).splitlines()
    # split model output per case at `opened`
    chunks, cur = [], None
    for l in ml:
        if l == "opened":
            cur = []; chunks.append(cur)
        if cur is not None:
            cur.append(l)
    ok = True
    for idx, (c, (r, il)) in enumerate(zip(cases, res)):
        ctx.count()
        if isinstance(r, Bad) and r.sig == "harness-crash" and ALT.get("nd") and exe != ALT["nd"] \
                and len(ctx.violations) < MAX_SIGS and "crash-explained" not in ALT:
            # an assert of the debug library fired: ask the NDEBUG build what the property sees
            r2, _ = check_case(ctx, ALT["nd"], c)
            if isinstance(r2, Bad) and r2.sig not in ("harness-crash",) and r2.sig not in ctx.known:
                ALT["crash-explained"] = True
                ctx.violation(r2.sig, f"C05 ({label}, NDEBUG library): {r2.what}", {"mode": "sim", "ops": c})
        if isinstance(r, Bad):
            if r.sig in ctx.known:
                ctx.violation(r.sig, r.what, {"mode": "sim", "ops": c})
                ctx.notes["known_finding_cases"] = ctx.notes.get("known_finding_cases", 0) + 1
            else:
                new = not any(v["sig"] == r.sig for v in ctx.violations)
                if new and len(ctx.violations) >= MAX_SIGS:
                    ok = False
                    continue
                # record first (starts the watchdog clock), shrink afterwards within a budget
                if ctx.violation(r.sig, f"C05 ({label}): {r.what}", {"mode": "sim", "ops": c}):
                    ok = False
                    if new:
                        small = shrink(ctx, exe, c, r.sig)
                        for v in ctx.violations:
                            if v["sig"] == r.sig:
                                v["replay"] = {"mode": "sim", "ops": small}
                    continue
        iv = [l for l in il if not l.startswith("#")]
        mv = chunks[idx] if idx < len(chunks) else []
        if iv != mv:
            k = next((i for i in range(min(len(iv), len(mv))) if iv[i] != mv[i]), min(len(iv), len(mv)))
            ctx.broken_correspondence("stream write model vs src/unix/stream.c",
                                      f"line {k}: impl `{iv[k] if k < len(iv) else None}` model `{mv[k] if k < len(mv) else None}`; case {c}")
            ctx.notes.setdefault("diff_cases", []).append(c)
            return False
        ctx.validated()
        if not isinstance(r, Bad):
            syss = [l for l in iv if l.startswith("sys ")]
            nt = any(l.split()[1] != "shutdown" and (int(l.split()[4]) in (-11, -105, -4) or 0 <= int(l.split()[4]) < int(l.split()[3])) for l in syss)
            if nt:
                shape = " ".join(x.split()[0] for x in c)
                ctx.nontrivial("S" + hashlib.sha1((shape + "|" + "|".join(syss)).encode()).hexdigest()[:12])
            h = ctx.notes.setdefault("hist", {})
            for l in iv:
                key = l.split()[0] + (":" + l.split()[1] if l.startswith("sys ") else "")
                if l.startswith("sys ") and l.split()[1] != "shutdown":
                    res_ = int(l.split()[4])
                    key += ":" + ("partial" if 0 <= res_ < int(l.split()[3]) else "full" if res_ >= 0 else str(res_))
                    if int(l.split()[2]) >= 1024: h["sys:iovcnt=IOV_MAX"] = h.get("sys:iovcnt=IOV_MAX", 0) + 1
                if l.startswith("cb "):
                    key += ":" + l.split()[2]
                h[key] = h.get(key, 0) + 1
            h["kind:" + c[0].split()[1]] = h.get("kind:" + c[0].split()[1], 0) + 1
            # most callbacks owed to a single loop iteration (depth reached around the 32-request cap)
            best = cur = 0
            for l in iv:
                if l.startswith("cb "): cur += 1
                elif l.startswith("ran "): best = max(best, cur); cur = 0
            if best >= 33:
                h["run:>=33 write callbacks in one iteration"] = h.get("run:>=33 write callbacks in one iteration", 0) + 1
    return ok


def upd_cases_exhaustive(maxbufs, maxlen):
    for nb in range(1, maxbufs + 1):
        for lens in itertools.product(range(maxlen + 1), repeat=nb):
            for widx in range(nb):
                rest = sum(lens[widx:])
                for n in range(rest + 1):
                    yield f"upd {n} {','.join(map(str, lens))} {widx}"


def run_upd(ctx, uexe, lines, label):
    text = "\n".join(lines) + "\n"
    rc, out, err = ctx.run(uexe, text=text)
    il = out.splitlines()
    ctx.count(len(lines))
    if rc != 0:
        ctx.violation("req-update-crash", f"uv__write_req_update harness exited {rc}: {err[-800:]}", {"mode": "upd", "ops": lines[:50]})
        return False
    verdicts = [l for l in il if l.startswith("#")]
    vals = [l for l in il if not l.startswith("#")]
    for cmd, v in zip(lines, verdicts):
        if v != "#ok":
            ctx.violation("req-update-monitor", f"uv__write_req_update: sizes/bases/index inconsistent after `{cmd}`", {"mode": "upd", "ops": [cmd]})
            return False
    ml = ctx.driver(["c05upd"], text).splitlines()
    if vals != ml:
        k = next((i for i in range(min(len(vals), len(ml))) if vals[i] != ml[i]), 0)
        ctx.broken_correspondence("reqUpdate model vs uv__write_req_update", f"`{lines[k]}`: impl `{vals[k]}` model `{ml[k] if k < len(ml) else None}`")
        return False
    ctx.validated(len(lines))
    for cmd in lines:
        w = cmd.split()
        if 0 < int(w[1]) and "0" in w[2].split(","):
            ctx.nontrivial("U" + cmd)
    return True


def run(ctx):
    ctx.trusted += ["interposition harness: write/writev/sendmsg/shutdown for the stream's fd defined in harness/c05_sim.c, "
                    "partial writes performed with the real syscall", "clang/ASan/UBSan",
                    "byte identity: payload byte = f(call number, offset) (251-periodic pattern)"]
    ctx.assumptions += ["POLLOUT is delivered by epoll whenever the watcher is armed (socket buffers never fill: payloads are small)",
                        "UV_HANDLE_BLOCKING_WRITES is not set (tty only); the send_handle is not closing"]
    ctx.trusted += ["tools/gen_lean.py (clang AST -> Lean for the loop-free kernels try_write2, check_before_write, try_write_iovcnt, "
                    "try_write_result) and UvModel/CSem.lean"]
    # Tie A: the kernels above regenerated from /repo, GenEq/C05 re-proves them = StreamW.tryWrite2 / checkBeforeWrite / tryWriteOnce
    # (a failing translation is recorded in ctx.broken by gen_lean itself)
    ctx.gen_lean(need=["C05", "C07"])
    ctx.require_lean(["UvModel.GenEq.C05", "UvModel.Props.C05"])
    uexe = ctx.harness("c05_requpdate", ["harness/c05_requpdate.c"], link_lib=True)
    sexe = ctx.harness("c05_sim", ["harness/c05_sim.c"], link_lib=True)
    # same harness against the NDEBUG build of the library: behaviour behind the asserts of stream.c
    sexe_nd = ctx.harness("c05_sim_nd", ["harness/c05_sim.c"], variant="asan-ndebug", link_lib=True)
    ALT["nd"] = sexe_nd
    if ctx.replay:
        rp = json.loads(Path(ctx.replay).read_text())["replay"]
        if rp["mode"] == "upd" and uexe:
            run_upd(ctx, uexe, rp["ops"], "replay")
        elif sexe:
            run_sim(ctx, sexe, [rp["ops"]], "replay")
        return
    rng = ctx.rng
    if uexe:
        ex = list(upd_cases_exhaustive(ctx.scale(4, 5), ctx.scale(3, 3)))
        run_upd(ctx, uexe, ex, "exhaustive")
        ctx.notes["req_update_exhaustive"] = f"{len(ex)} (all lists of <= {ctx.scale(4, 5)} buffers with len <= 3, every write_index, every n <= remaining)"
        rnd = []
        for _ in range(ctx.scale(300, 5000)):
            lens = expand(gen_bufs(rng, True)); widx = rng.below(len(lens)); rest = sum(lens[widx:])
            rnd.append(f"upd {rng.below(rest + 1)} {','.join(map(str, lens))} {widx}")
        run_upd(ctx, uexe, rnd, "random")
    if sexe:
        corpus = sorted((VERIF / "corpus" / "C05").glob("*.txt")) if (VERIF / "corpus" / "C05").exists() else []
        ccases = [[l for l in p.read_text().splitlines() if l.strip()] for p in corpus]
        if ccases:
            run_sim(ctx, sexe, ccases, "corpus")
            if sexe_nd:
                run_sim(ctx, sexe_nd, ccases, "corpus, NDEBUG library")
        total = ctx.scale(750, 30000)
        batch = 250
        done = 0
        nb = 0
        while done < total and not ctx.violations and not any(k == "correspondence" for k, _, _ in ctx.broken):
            cases = [gen_case(rng, rng.range(3, ctx.scale(14, 30)), "shut" if nb % 3 == 2 else None)
                     for _ in range(min(batch, total - done))]
            if done == 0:
                ctx.sample({"program": cases[0]})
            nd = sexe_nd is not None and nb % 3 == 2
            run_sim(ctx, sexe_nd if nd else sexe, cases, "random, NDEBUG library" if nd else "random")
            ctx.notes["ndebug_cases"] = ctx.notes.get("ndebug_cases", 0) + (len(cases) if nd else 0)
            done += len(cases); nb += 1
    if ctx.broken and not ctx.violations and sexe:
        ctx.log("obligation broken; searching for a failing input with the monitors")
        srng = SplitMix(ctx.seed + 4242)
        n = 0
        diff = ctx.notes.get("diff_cases", [])
        bias = "shut" if any(" s" in " ".join(c) or "s" in c for c in diff) else None
        for rnd in range(ctx.scale(60, 200)):
            cases = [gen_case(srng, srng.range(3, 30), bias if rnd % 2 else None) for _ in range(300)]
            with ThreadPoolExecutor(NCPU) as ex:
                res = list(ex.map(lambda c: check_case(ctx, sexe, c), cases))
            n += len(cases)
            for c, (r, il) in zip(cases, res):
                if isinstance(r, Bad) and r.sig not in ctx.known:
                    ctx.violation(r.sig, f"C05 (search): {r.what}", {"mode": "sim", "ops": c})
                    small = shrink(ctx, sexe, c, r.sig)
                    for v in ctx.violations:
                        if v["sig"] == r.sig:
                            v["replay"] = {"mode": "sim", "ops": small}
                    break
            if ctx.violations:
                break
        ctx.notes["search"] = f"{n} extra programs run against the monitors after an obligation broke"
    ctx.cov["rule"] = ("uv__write_req_update: exhaustive small (lens, write_index, n) + random incl. >IOV_MAX lists; non-trivial = n>0 with "
                       "an empty buffer in the list. simulator: random programs (kind x ops x callback scripts x outcome schedule); "
                       "non-trivial = >=1 partial write or EAGAIN/ENOBUFS/EINTR; distinct by (op shape, syscall result sequence)")
