"""C03 — phase order and blocking rules.  Proof: UvModel.Props.C03 over the LoopModel (uv_run, loop-watcher iteration,
uv__backend_timeout, the timeout loop of uv__io_poll).  Tie B and monitors: see checks/loopsim.py (phase automaton over the
callback trace, once-per-iteration, poll timeout recomputed from observations + own timer bookkeeping, uv_stop semantics)."""
from vlib import *
import loopsim

MANIFEST = {
 "text": "Lean 4 theorems over the executable LoopModel: the timeout uv_run hands to the poller is 0 in UV_RUN_NOWAIT, after "
         "uv_stop, with an active idle handle, a pending close callback, a non-empty pending queue or nothing active-and-referenced, "
         "and otherwise uv__next_timeout (min(due - now, INT_MAX) or -1); uv_backend_timeout; the io_poll timeout loop never "
         "asks for more than the remaining time and, with the idle-time metric, polls once with 0 first; loop-watcher iteration "
         "calls no handle twice per iteration; uv_stop semantics (flag cleared, zero iterations when set before uv_run); phase "
         "tags of one iteration are ordered.  watcher_once and watcher_exactly_once, phase_order incl. the DEFAULT-mode initial timer segment, and block_bound (clock readings below 2^64) are theorems; the timeout kernels are regenerated from /repo on every run and proved equal to the model kernels (UvModel.GenEq).  Tied to the working tree by the loop simulator (virtual clock, scripted "
         "epoll_pwait incl. EINTR, UV_METRICS_IDLE_TIME on/off, three run modes) with a line-by-line diff (every `env poll "
         "timeout=` line) and independent monitors (phase automaton, once-per-iteration, timeout rule, stop semantics).",
 "note": "Trusted: Lean kernel, simulator interposition (epoll_pwait never really sleeps: the virtual clock advances by the "
         "requested timeout), clang sanitizers. The 1024-event full-batch re-poll (`count = 48`) is modelled and covered by the "
         "block_bound theorem but cannot be produced by the simulator. Signal dispatch order inside a batch is C13.",
 "design": "DESIGN.md §3 C03",
}

def run(ctx):
    ctx.trusted += ["tools/gen_lean.py (clang AST -> Lean for the timeout kernels and uv_run's run_entry / run_iter / run_exit) and UvModel/CSem.lean"]
    # Tie A: regenerate lean/UvModel/Generated from /repo; GenEq ties HandleKernels to it, GenEq/C03 the entry / one iteration / exit of uv_run
    ctx.gen_lean(need=["core", "C03"])
    loopsim.drive(ctx, "C03", ["UvModel.Props.C03", "UvModel.GenEq", "UvModel.GenEq.C03"], ["C03", "C03", "C03", "C02"], 900, 12000)
