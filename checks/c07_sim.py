"""simulator half of the C07 check (imported by checks/c07.py)"""
from vlib import *
def run_sim_part(ctx, exe, replay=None, search=False):
    return 0
