"""simulator half of the C07 check (imported by checks/c07.py): scenario generator, monitors that
evaluate the property text on harness/c07_sim.c's log, and the model-vs-implementation diffs
(per-server and IPC traces replayed through `uvdriver accept`, refusal table through `uvdriver wcheck`,
failing connects through `uvdriver connect`)."""
from vlib import *

KINDS = ["t4", "t6", "un"]


def gen_scenario(rng, flavour=None):
    fl = flavour or rng.choice(["servers", "servers", "servers", "ipc", "ipcbig", "connect", "mixed", "cscript", "backlog", "prebind", "retry", "retry", "ipchup", "ipchup"])
    L = []
    meta = {"drained": set(), "fl": fl}
    if fl in ("servers", "mixed"):
        ns = rng.range(1, 3)
        modes = []
        for s in range(ns):
            m = rng.choice(["imm", "defer", "defer", "never"])
            modes.append(m); L.append(f"server {s} {rng.choice(KINDS)} {m}")
        cid = 0
        closed = set()
        for _ in range(rng.range(3, 14)):
            r = rng.below(14)
            s = rng.below(ns)
            if r < 6:
                L.append(f"{rng.choice(['raw', 'raw', 'uvc'])} {cid} {s}"); cid += 1
                if rng.chance(1, 8):
                    L.append(f"closecli {cid - 1}")
            elif r < 9:
                L.append(f"run {rng.range(1, 3)}")
            elif r < 11:
                if modes[s] != "imm" and s not in closed:
                    L.append(f"accept {s}" + (" busy" if rng.chance(1, 10) else ""))
            elif r < 12:
                L.append("inject " + " ".join(str(rng.choice([24, 23, 11, 103, 0])) for _ in range(rng.range(1, 2))))
            elif r < 13 and rng.chance(1, 3) and s not in closed:
                L.append(f"closesrv {s}"); closed.add(s)
        L.append("run 3")
        for s in range(ns):
            if modes[s] == "defer" and s not in closed and rng.chance(3, 4):
                L.append(f"drain {s}"); meta["drained"].add(s)
    if fl in ("connect", "mixed"):
        base = 100
        for i in range(rng.range(1, 5)):
            L.append(f"badconnect {base + i} {rng.choice(['tcp', 'pipe', 'long', 'longnt'])}" + (" close" if rng.chance(1, 4) else ""))
            if rng.chance(1, 2):
                L.append("run 1")
        L.append("run 3")
    if fl == "ipc":
        k = rng.choice([1, 2, 5, 8, 9, 10, 12, 17, 20, 30])
        kinds = "".join(rng.choice("tpu") for _ in range(k))
        L.append(f"ipc {kinds} {rng.choice(['late', 'late', 'imm', '2', '3', '5'])}")
    if fl == "cscript":
        # connect(2) of uv clients answers every non-success code libuv distinguishes, for tcp and pipe:
        # 1 = the real call (0 / EINPROGRESS / whatever the kernel says), -4 = EINTR then retry, others fail outright
        ns = rng.range(1, 2)
        for s_ in range(ns):
            L.append(f"server {s_} {rng.choice(KINDS)} {rng.choice(['imm', 'imm', 'defer'])}")
        for c in range(rng.range(2, 8)):
            codes = [-4] * rng.choice([0, 0, 1, 3]) + [rng.choice([1, 1, -11, -111, -2, -13, -99, -115 if False else -104, -110, -101])]
            L.append("cscript " + " ".join(map(str, codes)))
            L.append(f"uvc {c} {rng.below(ns)}")
            if rng.chance(1, 8): L.append(f"closecli {c}")
            if rng.chance(1, 3): L.append("run 1")
        L.append("run 3")
        for s_ in range(ns):
            L.append(f"drain {s_}"); meta["drained"].add(s_)
    if fl == "retry":
        # connect callbacks that act on the SAME handle: re-submit the connect (to a failing target or to the live server,
        # again when refused synchronously), queue a write, shut down, close - after an asynchronous failure
        # (closed port -> ECONNREFUSED, missing path -> ENOENT) or after success
        L.append("server 0 t4 imm"); L.append("server 1 un imm")
        for r_ in range(rng.range(1, 5)):
            kind = rng.choice(["tcp", "pipe"])
            n = rng.range(1, 4)
            script = "".join(rng.choice("ggffwWsc-") for _ in range(n))
            L.append(f"retry {r_} {kind} {0 if kind == 'tcp' else 1} {rng.choice('fffg')} {script}")
            if rng.chance(1, 3): L.append("run 1")
        L += ["run 2", "run 3"]
    if fl == "prebind":
        # tcp client handles that carry state from earlier calls when uv_tcp_connect() runs: bound to a port in use
        # (EADDRINUSE deferred by uv_tcp_bind), bound to a free port, or already connecting (second connect -> UV_EALREADY);
        # the target is a live listener, so "was the connection established" is observable on the server side
        ns = rng.range(1, 2)
        for s_ in range(ns):
            L.append(f"server {s_} {rng.choice(['t4', 't4', 't6'])} {rng.choice(['imm', 'imm', 'defer'])}")
        for c in range(rng.range(2, 7)):
            if rng.chance(1, 4): L.append(f"uvc {c} {rng.below(ns)}")
            else: L.append(f"uvcb {c} {rng.below(ns)} {rng.choice(['inuse', 'inuse', 'free', 'twice'])}")
            if rng.chance(1, 8): L.append(f"closecli {c}")
            if rng.chance(1, 3): L.append("run 1")
        L.append("run 3")
        for s_ in range(ns):
            L.append(f"drain {s_}"); meta["drained"].add(s_)
    if fl == "backlog":
        # Unix-socket (and tcp) server with a tiny listen backlog, burst of uv clients, accept deferred:
        # non-blocking AF_UNIX connect() answers EAGAIN when the backlog is full
        kind = rng.choice(["un", "un", "un", "t4"])
        L.append(f"server 0 {kind} defer {rng.choice([0, 1, 2])}")
        nc = rng.range(3, 9)
        for c in range(nc):
            L.append(f"uvc {c} 0")
            if rng.chance(1, 5): L.append("run 1")
        L.append("run 3")
        if kind == "un":
            L.append("drain 0"); meta["drained"].add(0)
    if fl == "ipchup":
        # IPC pipe whose sending side goes away (close / shutdown / shutdown of both directions / never) before the
        # receiver starts or after its k-th read, with handle-bearing and plain messages still unread; the receiver
        # reads with buffers that are always filled (1) .. never filled (65536) and claims inside the read callback,
        # every N-th read, only after end-of-stream, or pauses reading after every callback
        k = rng.choice([2, 3, 5, 8, 9, 12, 17, 30])
        kinds = "".join(rng.choice("tttppuu-") for _ in range(k))
        when = rng.choice([0, 0, 0, 1, 2, max(1, k // 2), k, 99])
        L.append(f"ipchup {kinds} {rng.choice(['imm', 'imm', 'imm', 'late', 'pause', '2', '3'])} {rng.choice([1, 2, 3, 64, 65536, 65536, 65536])} "
                 f"{rng.choice([1, 1, 2, 3, 5])} {when} {rng.choice('cccsdn')}")
    if fl == "ipcbig":
        # uv_write2 carrying a handle AND a payload that needs several syscalls: short transfers scripted per
        # syscall on the sending descriptor (cap in bytes, -11 = EAGAIN, 0 = whatever the kernel takes), or a
        # payload larger than the socket buffer so the kernel itself produces the partial sends
        k = rng.choice([1, 2, 3, 5, 9, 12])
        kinds = "".join(rng.choice("tpu") for _ in range(k))
        if rng.chance(1, 5):
            payload, caps = rng.choice([300000, 700000]), []
            kinds = kinds[:3]
        else:
            payload = rng.choice([1, 2, 7, 64, 1000, 70000])
            caps = [rng.choice([1, 1, 2, 3, payload // 2 + 1, payload, -11, -11, 0]) for _ in range(rng.range(0, 4 * k))]
        L.append(f"ipcbig {kinds} {payload} " + " ".join(map(str, caps)))
    if fl in ("connect", "mixed") or rng.chance(1, 6):
        L.append("wcheck")
    L.append("end")
    return L, meta


def kv(line):
    d = {}
    for t in line.split():
        if "=" in t:
            k, v = t.split("=", 1); d[k] = v
    return d


def sim_monitor(prog, meta, out):
    """property text on the implementation's log; returns (signature, message) or None"""
    srv_mode, srv_alive, cli_sid, cli_kind = {}, {}, {}, {}
    self_closed, srv_closed_at = set(), {}
    for l in prog:
        w = l.split()
        if w[0] == "server": srv_mode[int(w[1])] = w[3]
        if w[0] in ("raw", "uvc", "uvcb"): cli_sid[int(w[1])] = int(w[2]); cli_kind[int(w[1])] = "uvc" if w[0] == "uvcb" else w[0]
        if w[0] == "closecli": self_closed.add(int(w[1]))
        if w[0] == "retry": cli_sid[200 + int(w[1])] = int(w[3])
    if any(o == "bad-op" for o in out):
        return ("sim-badop", "harness did not understand an op")
    # --- servers: EAGAIN iff nothing announced-and-unclaimed; announcements/claims counted from the callbacks
    pend = {}
    unavailable = set()
    stuck = set()
    for o in out:
        w = o.split()
        if w[0] == "server" and kv(o)["r"] != "0": unavailable.add(int(w[1]))
        if w[0] == "concb" and "peer" in kv(o):
            d = kv(o)
            if d["status"] == "0" and d["peer"] != "1":
                return ("connect-status-0-not-connected", f"connect callback of client {w[1]} reported status 0 but the socket has no peer (getpeername fails)")
            # (an error status on a socket that still has a peer is legitimate: established, then reset before the callback)
        if w[0] == "conncb":
            if kv(o)["status"] != "0": return ("conncb-status", f"connection_cb status {o}")
            pend[int(w[1])] = pend.get(int(w[1]), 0) + 1
            if pend[int(w[1])] > 1: return ("conncb-while-pending", f"connection announced while another is unclaimed on server {w[1]} (POLLIN not paused)")
        if w[0] == "accept":
            s = int(w[1]); r = int(kv(o)["r"]); p = pend.get(s, 0)
            if p == 0 and r != -11: return ("accept-not-eagain", f"uv_accept with nothing pending returned {r}: {o}")
            if p > 0 and r == -11: return ("accept-eagain-pending", f"uv_accept returned UV_EAGAIN with a pending connection: {o}")
            if p > 0: pend[s] = p - 1
            if p > 0 and r != 0: stuck.add(s)
        if w[0] == "closesrv": pend[int(w[1])] = 0
    # --- tokens: every accepted stream carries the token of a distinct client of that server
    seen = {}
    for o in out:
        w = o.split()
        if w[0] == "acc":
            d = kv(o); s = int(w[1])
            if d["token"] in ("none", "eof"):
                continue        # client closed before writing: judged by the client's fate below
            t = int(d["token"])
            if t in seen: return ("token-dup", f"client {t} delivered twice by uv_accept: {o}")
            if cli_sid.get(t) != s: return ("token-wrong-server", f"stream accepted on server {s} carries the token of client {t} (server {cli_sid.get(t)})")
            if d.get("extra", "0") != "0": return ("token-extra", f"accepted stream carries extra bytes: {o}")
            seen[t] = s
    # a client that was told "failed" must not have been handed to the server, and vice versa (tcp: matched by port)
    lport = {}
    for o in out:
        w = o.split()
        if w[0] == "concb" and "lport" in kv(o) and int(kv(o)["lport"]) > 0: lport[int(kv(o)["lport"])] = (int(w[1]), int(kv(o)["status"]))
        if w[0] in ("bind", "uvc2"):
            exp = -114 if w[0] == "uvc2" else 0
            if int(kv(o)["r"]) != exp: return (w[0] + "-return", f"{o}: expected {exp}")
    for o in out:
        w = o.split()
        if w[0] == "acc" and "pport" in kv(o) and int(kv(o)["pport"]) in lport:
            c, st = lport[int(kv(o)["pport"])]
            if st != 0 and c not in self_closed:
                return ("connect-failed-status-but-established", f"connect callback of client {c} reported {st}, yet server {w[1]} was handed its connection by uv_accept (peer port {kv(o)['pport']})")
    alive, fired, spare = {}, 0, "1"
    for o in out:
        w = o.split()
        if w[0] == "srv": alive[int(w[1])] = kv(o)["alive"] == "1"
        if w[0] == "fired=" or o.startswith("fired="): fired = int(kv(o)["fired"]); spare = kv(o)["spare"]
    if spare != "1":
        return ("emfile-spare-lost", "loop->emfile_fd not re-opened after the EMFILE trick")
    for o in out:
        w = o.split()
        if w[0] != "cli": continue
        c = int(w[1]); d = kv(o)
        if d["kind"] == "bad" or c in self_closed or c not in cli_sid: continue
        s = cli_sid[c]
        if s in unavailable: continue
        connected = (d["kind"] == "raw" and d["ret"] == "0") or (d["kind"] == "uvc" and d["cbs"] == "1" and d["status"] == "0")
        if not connected: continue
        claimed = c in seen
        if claimed and d["peer"] == "closed":
            return ("claimed-but-closed", f"client {c} was handed to the user by uv_accept but its connection is closed")
        if not claimed and d["peer"] == "closed" and alive.get(s) and fired == 0 and s not in stuck:
            return ("connection-dropped", f"client {c} reached live server {s} but was closed without being claimable")
        if not claimed and d["peer"] != "closed" and alive.get(s) and s not in stuck and \
                (srv_mode[s] == "imm" or s in meta["drained"]):
            return ("connection-never-announced", f"client {c} connected to live server {s} ({srv_mode[s]}) but was never announced/claimable")
    # --- connect requests: exactly one callback iff the submitting call returned 0; status
    for o in out:
        w = o.split()
        if w[0] != "final": continue
        c = int(w[1]); d = kv(o); ret, cbs, st = int(d["ret"]), int(d["cbs"]), int(d["status"])
        if ret == 0 and cbs != 1 and any(l.startswith("dblconnect") and str(c) in l.split()[1:] for l in prog):
            return ("pipe-connect-overlap-lost-request", f"two uv_pipe_connect() on one handle both returned 0; request {c} got {cbs} callbacks (connect_req overwritten, pipe.c:331-338)")
        if ret == 0 and cbs != 1: return ("connect-cb-count", f"connect request {c} accepted but {cbs} callbacks")
        if ret != 0 and cbs != 0: return ("connect-cb-after-error", f"connect request {c} refused ({ret}) but callback ran")
        bad = next((l for l in prog if l.startswith(f"badconnect {c} ")), None)
        if bad:
            kind = bad.split()[2]; closed = bad.endswith("close")
            if kind == "longnt":
                if ret != -22: return ("connect-longnt", f"over-long path with NO_TRUNCATE returned {ret}")
            elif ret != 0: return ("connect-sync-error", f"{bad}: returned {ret}, error must come through the callback")
            elif closed and st != -125: return ("connect-cancel-status", f"{bad}: status {st}, expected UV_ECANCELED")
            elif not closed and st != {"tcp": -111, "pipe": -2, "long": -2}[kind]:
                return ("connect-status", f"{bad}: status {st}")
        elif c in cli_sid and cli_sid[c] not in unavailable and ret == 0 and c not in self_closed:
            if st == 0 and c not in seen and alive.get(cli_sid[c]) and (srv_mode[cli_sid[c]] == "imm" or cli_sid[c] in meta["drained"]) and fired == 0 and cli_sid[c] not in stuck:
                return ("connect-ok-not-established", f"client {c}: status 0 but the server never got it")
    # --- connects re-submitted / handles used from inside the connect callback
    userclosed = {int(o.split()[1]) for o in out if o.startswith("rclose")}
    for o in out:
        w = o.split(); d = kv(o)
        if w[0] == "rcb" and d["status"] == "0" and d["peer"] != "1":
            return ("connect-status-0-not-connected", f"retry handle {w[1]} attempt {d['att']}: status 0 without a peer")
        if w[0] == "rfinal":
            ret, cbs, st = int(d["ret"]), int(d["cbs"]), int(d["status"])
            what = f"connect attempt {d['att']} on handle {w[1]} (target {'live server' if d['target'] == 'g' else 'nothing listening'})"
            if ret == 0 and cbs != 1: return ("connect-cb-count", f"{what}: accepted but {cbs} callbacks")
            if ret != 0 and cbs != 0: return ("connect-cb-after-error", f"{what}: refused ({ret}) but callback ran")
            if ret == 0 and d["target"] == "g" and st != 0 and int(w[1]) not in userclosed:
                return ("connect-resubmitted-never-completed" if st == -125 else "connect-status", f"{what}: status {st}, the server was listening and the handle was not closed by the user")
            if ret == 0 and d["target"] == "f" and st == 0: return ("connect-status", f"{what}: status 0")
        if w[0] == "rfinalw" and (d["writes"] != d["wcbs"] or d["shutdowns"] != d["shcbs"]):
            return ("callback-write-shutdown-count", f"writes/shutdowns issued from a connect callback: {o}")
    if not any(o.startswith("loop-alive=0 close=0") for o in out):
        return ("loop-not-clean", f"requests/handles left after everything was closed: {out[-1] if out else ''}")
    # --- IPC pipe whose sender hangs up: every handle whose uv_write2 completed arrives (in order, with the first byte of
    #     its write, counted and typed) and is claimable - end-of-stream must not be reported while handles are still queued
    hup = next((l for l in prog if l.startswith("ipchup")), None)
    if hup:
        _, kinds, pol, bufsz, paylen, when, how = hup.split(); paylen = int(paylen)
        hk = [k for k in kinds if k != "-"]
        first = [i * paylen for i, k in enumerate(kinds) if k != "-"]
        total = len(kinds) * paylen
        if any(kv(o)["r"] != "0" for o in out if o.startswith("hsend")): return ("ipc-send-refused", "uv_write2/uv_write on an IPC pipe failed")
        received = gots = 0
        for o in out:
            w = o.split(); d = kv(o)
            if w[0] == "hinflight" and (d["werr"] != "0" or int(d["wcbs"]) != len(kinds) or int(d["handles"]) != len(hk)):
                return ("ipc-error", f"writes on the IPC pipe did not all complete with status 0 before the hang-up: {o}")
            if w[0] == "hwcb": return ("ipc-error", o)
            if w[0] == "hread" and "err" in d: return ("ipc-error", o)
            if w[0] == "hread" and "n" in d:
                received += int(d["new"]); b = int(d["bytes"])
                exp = sum(1 for f in first if f < b)
                if received != exp: return ("ipc-handles-per-write", f"after {b} payload bytes ({paylen} per write, kinds {kinds}) {received} handles had arrived, expected {exp}")
                if int(d["pc"]) != received - gots: return ("ipc-pending-count", f"pending_count {d['pc']} after {received} received / {gots} claimed")
                if d["type"] != (hk[gots] if received > gots else "-"): return ("ipc-pending-type", f"pending_type {d['type']} with {received - gots} unclaimed (sent kinds {''.join(hk)}, {gots} claimed)")
            if w[0] == "heof":
                if received < len(hk):
                    return ("ipc-eof-before-handles", f"end-of-stream reported after {d['bytes']} of {total} payload bytes: {len(hk) - received} of {len(hk)} handles whose "
                            f"uv_write2 completed with status 0 were still queued in the pipe and are lost (sender hang-up `{how}` at read {when}, receiver policy {pol}, buffer {bufsz})")
                if int(d["pc"]) != received - gots: return ("ipc-pending-count", f"pending_count {d['pc']} at end-of-stream with {received} received / {gots} claimed")
            if w[0] == "ipcgot":
                if int(d["pc"]) != received - gots: return ("ipc-pending-count", f"pending_count {d['pc']} before claim {gots} with {received} received")
                if d["r"] != "0" or d["usable"] != "1": return ("ipc-accept-failed", o)
                if int(d["from"]) != gots: return ("ipc-order", f"claim {gots} yielded the handle sent as #{d['from']}")
                if d["type"] != hk[gots]: return ("ipc-type", f"claim {gots}: type {d['type']}, sent {hk[gots]}")
                gots += 1
            if w[0] == "ipcempty" and (d["r"] != "-11" or d["pc"] != "0" or d["type"] != "-"): return ("ipc-empty", o)
            if w[0] == "hupdone" and not (int(d["handles"]) == int(d["got"]) == len(hk)): return ("ipc-count", o)
        if gots != len(hk) or not any(o.startswith("hupdone") for o in out): return ("ipc-lost", f"sent {len(hk)} handles, received {received}, claimed {gots}")
        return wcheck_monitor(out)
    # --- IPC with payloads: one handle per sending write, arriving with the first byte of that write
    big = next((l for l in prog if l.startswith("ipcbig")), None)
    if big:
        kinds = big.split()[1]; payload = int(big.split()[2]); gots = 0
        if any(kv(o)["r"] != "0" for o in out if o.startswith("ipcsend")): return ("ipc-send-refused", "uv_write2 with a handle on an IPC pipe failed")
        carried = {}
        for o in out:
            w = o.split(); d = kv(o)
            if w[0] == "tx":
                if int(d["ret"]) >= 0 and d["handle"] != "-":
                    carried[d["req"]] = carried.get(d["req"], 0) + 1
                    if d["handle"] != d["req"]: return ("ipc-wrong-handle-attached", f"request {d['req']} sent the handle of request {d['handle']}: {o}")
                    if carried[d["req"]] > 1: return ("send-handle-more-than-once", f"the descriptor of uv_write2 #{d['req']} rode on {carried[d['req']]} successful syscalls: {o}")
            if w[0] == "bigread" and "bytes" in d:
                b = int(d["bytes"]); exp = min(len(kinds), (b + payload - 1) // payload)
                if int(d["pc"]) != exp: return ("ipc-handles-per-write", f"after {b} payload bytes ({payload} per uv_write2) {d['pc']} handles are pending, expected {exp}")
            if w[0] == "bigread" and "err" in d: return ("ipc-error", o)
            if w[0] == "ipcbigread" and (int(d["bytes"]) != payload * len(kinds) or int(d["pc"]) != len(kinds) or d["baddata"] != "0" or int(d["wcbs"]) != len(kinds)):
                return ("ipc-big-totals", f"{o} for {len(kinds)} writes of {payload} bytes")
            if w[0] == "ipcgot":
                if d["r"] != "0" or d["usable"] != "1": return ("ipc-accept-failed", o)
                if int(d["from"]) != gots or d["type"] != kinds[gots]: return ("ipc-order", f"claim {gots} yielded the handle sent as #{d['from']} type {d['type']}")
                gots += 1
            if w[0] == "ipcempty" and (d["r"] != "-11" or d["pc"] != "0" or d["type"] != "-"): return ("ipc-empty", o)
            if w[0] == "ipcwcb": return ("ipc-error", o)
        if gots != len(kinds) or not any(o.startswith("ipcbigdone") for o in out): return ("ipc-lost", f"sent {len(kinds)} claimed {gots}")
        return wcheck_monitor(out)
    # --- IPC
    sent = [o for o in out if o.startswith("ipcsend")]
    if sent:
        kinds = [kv(o)["kind"] for o in sent]
        if any(kv(o)["r"] != "0" for o in sent): return ("ipc-send-refused", "uv_write2 with a handle on an IPC pipe failed")
        reads = gots = 0
        for o in out:
            w = o.split(); d = kv(o)
            if w[0] == "ipcread":
                reads += 1
                if int(d["pc"]) != reads - gots: return ("ipc-pending-count", f"pending_count {d['pc']} after {reads} received / {gots} claimed")
                if d["type"] != kinds[gots]: return ("ipc-pending-type", f"pending_type {d['type']}, oldest unclaimed was sent as {kinds[gots]}")
            if w[0] == "ipcgot":
                if int(d["pc"]) != reads - gots: return ("ipc-pending-count", f"pending_count {d['pc']} before claim {gots} with {reads} received")
                if d["r"] != "0" or d["usable"] != "1": return ("ipc-accept-failed", o)
                if int(d["from"]) != gots: return ("ipc-order", f"claim {gots} yielded the handle sent as #{d['from']}")
                if d["type"] != kinds[gots]: return ("ipc-type", f"claim {gots}: type {d['type']}, sent {kinds[gots]}")
                gots += 1
            if w[0] == "ipcempty" and (d["r"] != "-11" or d["pc"] != "0" or d["type"] != "-"):
                return ("ipc-empty", o)
            if w[0] == "ipcdone" and not (int(d["sent"]) == int(d["got"]) == int(d["wcbs"]) == len(kinds)):
                return ("ipc-count", o)
            if w[0] in ("ipcwcb", ) or (w[0] == "ipcread" and "err" in d): return ("ipc-error", o)
        if reads != len(kinds) or gots != len(kinds): return ("ipc-lost", f"sent {len(kinds)} received {reads} claimed {gots}")
    return wcheck_monitor(out)


def wcheck_monitor(out):
    """refusal table of uv_write2 / uv_try_write2 (also evaluated on the partial log of a crashed run)"""
    for o in out:
        w = o.split()
        if not w or w[0] != "wcheck" or len(w) < 5: continue
        d = kv(o); t, ww = int(d["try_write2"]), int(d["write2"])
        # refused with UV_EINVAL on every carrier that is not an IPC named pipe; on an IPC pipe UV_EBADF without descriptor
        exp = (-22, -22) if w[1] != "ipc" else ((1, 0) if w[2].startswith("good") else (-9, -9))
        if t != exp[0]: return ("try-write2-handle-" + w[1] + "-" + w[2], f"uv_try_write2 on {w[1]} stream with {w[2]} handle returned {t}, expected {exp[0]}")
        if ww != exp[1]: return ("write2-handle-" + w[1] + "-" + w[2], f"uv_write2 on {w[1]} stream with {w[2]} handle returned {ww}, expected {exp[1]}")
    for o in out:
        if o.startswith("wdeliver"):
            d = kv(o)
            if d["sent"] != d["got"] or d["sent"] != "6": return ("ipc-handles-not-delivered", f"handles accepted for sending over the IPC pipe vs descriptors that reached the peer: {o}")
            if d["plain-got"] != "0" or d["tcp-got"] != "0": return ("handle-leaked-over-non-ipc", o)
    return None


def model_diff(ctx, prog, out):
    """replay the implementation's per-stream traces through the model; returns description of first diff"""
    # servers
    modes = {int(l.split()[1]): l.split()[3] for l in prog if l.startswith("server")}
    traces = {s: [] for s in modes}      # list of (driver line, expected dict or None)
    n = {s: 0 for s in modes}
    cur_cb = None
    lines = list(out)
    i = 0
    while i < len(lines):
        w = lines[i].split()
        if w[0] == "server" and kv(lines[i])["r"] == "0" and int(w[1]) in traces:
            traces[int(w[1])].append(("init L 0", None))
        elif w[0] == "conncb" and int(w[1]) in traces:
            s = int(w[1]); traces[s].append((f"io ok {n[s]}", None)); n[s] += 1
            if modes[s] == "imm" and i + 1 < len(lines) and lines[i + 1].startswith(f"accept {s} "):
                traces[s].append(("accept S 0", kv(lines[i + 1]))); i += 1
                # pollin inside the callback is printed by the harness before ioend
            traces[s].append(("ioend", None))
        elif w[0] == "accept" and int(w[1]) in traces:
            s = int(w[1]); d = kv(lines[i])
            busy = d["r"] == "-16"
            traces[s].append((f"accept {'B -16' if busy else 'S 0'}", d))
        elif w[0] == "closesrv" and int(w[1]) in traces:
            traces[int(w[1])].append(("close", None))
        i += 1
    for s, tr in traces.items():
        if not tr or tr[0][0] != "init L 0": continue
        mo = ctx.driver(["accept"], "\n".join(t[0] for t in tr) + "\n").splitlines()
        for (cmd, exp), m in zip(tr, mo):
            if exp is None: continue
            md = kv(m)
            if md["r"] != exp["r"] or md["pollin"] != exp["pollin"]:
                return f"server {s} `{cmd}`: impl r={exp['r']} pollin={exp['pollin']}  model {m}"
    # IPC
    sent = [kv(o)["kind"] for o in out if o.startswith("ipcsend")]
    if sent:
        tr, k = [("init I 1", None), ("typed", None)], 0
        for o in out:
            w = o.split()
            if w[0] == "ipcread" and "n" in kv(o):
                tr.append((f"recv - {k}:{sent[k]}", ("after", kv(o)))); k += 1
            if w[0] == "bigread" and "pc" in kv(o):
                new = min(int(kv(o)["pc"]), len(sent)) - k        # nothing is claimed while reading (late policy)
                if new > 0:
                    tr.append(("recv - " + " ".join(f"{j}:{sent[j]}" for j in range(k, k + new)), ("after", kv(o)))); k += new
            if w[0] == "ipcgot":
                tr.append((f"accept {'U' if kv(o)['type'] == 'u' else 'S'} 0", ("got", kv(o))))
            if w[0] == "ipcempty":
                tr.append(("accept S 0", ("empty", kv(o))))
        mi = iter(ctx.driver(["accept"], "\n".join(t[0] for t in tr) + "\n").splitlines())
        prev = None
        for cmd, exp in tr:
            if cmd == "typed": continue
            m = next(mi); md = kv(m)
            if exp:
                tag, d = exp
                if tag == "after" and (md["pc"] != d["pc"] or md["ty"] != d["type"]):
                    return f"ipc `{cmd}`: impl pc={d['pc']} type={d['type']}  model {m}"
                if tag == "got" and (prev["pc"] != d["pc"] or prev["ty"] != d["type"] or md.get("got") != d["from"] or md["r"] != d["r"]):
                    return f"ipc `{cmd}`: impl {d}  model before {prev} after {m}"
                if tag == "empty" and (md["r"] != d["r"] or md["pc"] != d["pc"]):
                    return f"ipc empty accept: impl {d} model {m}"
            prev = md
    # IPC with a sender that hangs up: arrivals and claims replayed through the same fd-queue model
    hup = next((l for l in prog if l.startswith("ipchup")), None)
    if hup:
        hk = [k for k in hup.split()[1] if k != "-"]
        tr, k = [("init I 1", None), ("typed", None)], 0
        for o in out:
            w = o.split(); d = kv(o)
            if w[0] == "hread" and "new" in d and int(d["new"]) > 0:
                new = min(int(d["new"]), len(hk) - k)
                if new > 0: tr.append(("recv - " + " ".join(f"{j}:{hk[j]}" for j in range(k, k + new)), ("after", d))); k += new
            if w[0] == "ipcgot": tr.append((f"accept {'U' if d['type'] == 'u' else 'S'} 0", ("got", d)))
            if w[0] == "ipcempty": tr.append(("accept S 0", ("empty", d)))
        mi = iter(ctx.driver(["accept"], "\n".join(t[0] for t in tr) + "\n").splitlines())
        prev = None
        for cmd, exp in tr:
            if cmd == "typed": continue
            m = next(mi); md = kv(m)
            if exp:
                tag, d = exp
                if tag == "after" and (md["pc"] != d["pc"] or md["ty"] != d["type"]):
                    return f"ipc (hang-up) `{cmd}`: impl pc={d['pc']} type={d['type']}  model {m}"
                if tag == "got" and (prev["pc"] != d["pc"] or prev["ty"] != d["type"] or md.get("got") != d["from"] or md["r"] != d["r"]):
                    return f"ipc (hang-up) `{cmd}`: impl {d}  model before {prev} after {m}"
                if tag == "empty" and (md["r"] != d["r"] or md["pc"] != d["pc"]):
                    return f"ipc (hang-up) empty accept: impl {d} model {m}"
            prev = md
    # sending side: every syscall of uv__write on the IPC pipe (which request, which descriptor attached, how much asked)
    big = next((l for l in prog if l.startswith("ipcbig")), None)
    if big:
        kinds = big.split()[1]; payload = big.split()[2]
        q, exp = [], []
        for o in out:
            w = o.split()
            if w[0] == "ipcenq":
                q.append(f"enq {payload} {w[1]}")
            elif w[0] == "tx":
                d = kv(o); q.append(f"sys {d['ret']}"); exp.append(f"req={d['req']} handle={d['handle']} asked={d['asked']}")
        mo = [m for m in ctx.driver(["send"], "\n".join(q) + "\n").splitlines() if m.startswith("req=") or m == "bad-op"]
        if mo != exp:
            k = next((i for i in range(min(len(mo), len(exp))) if mo[i] != exp[i]), min(len(mo), len(exp)))
            return f"uv__write syscall {k}: impl `{exp[k] if k < len(exp) else None}` model `{mo[k] if k < len(mo) else None}`; {big}"
    # refusal table
    wl = [o.split() for o in out if o.startswith("wcheck")]
    if wl:
        q = []
        for w in wl:
            ipc = "1" if w[1] == "ipc" else "0"; h = "5" if w[2].startswith("good") else "-1"; isp = "0" if w[1] == "tcp" else "1"
            q += [f"tw2 7 1 {isp} {ipc} 0 0 {h}", f"w2 7 1 {isp} {ipc} 0 0 {h}"]
        mo = ctx.driver(["wcheck"], "\n".join(q) + "\n").splitlines()
        for j, w in enumerate(wl):
            d = kv(" ".join(w))
            for fn, key, m in (("uv_try_write2", "try_write2", mo[2 * j]), ("uv_write2", "write2", mo[2 * j + 1])):
                r = int(d[key]); impl = f"refuse {r}" if r < 0 else "pass"
                if impl != m:
                    return f"{fn} {w[1]} {w[2]}: impl {impl} model {m}"
    # uv clients: the observed connect(2) / SO_ERROR results drive the connect model; return value and callbacks must agree
    ev = {}
    for o in out:
        w = o.split(); d = kv(o)
        if w[0] == "sys" and w[1] == "connect": ev.setdefault(int(d["cid"]), []).append(("connect", int(d["ret"])))
        elif w[0] == "sys" and w[1] == "soerror": ev.setdefault(int(d["cid"]), []).append(("so", int(d["val"])))
        elif w[0] == "bind": ev.setdefault(int(w[1]), []).append(("bind", -98 if w[2] == "inuse" else 0, int(d["r"])))
        elif w[0] == "uvc" and "kind" in d: ev.setdefault(int(w[1]), []).append(("ret", int(d["r"]), d["kind"]))
        elif w[0] == "concb": ev.setdefault(int(w[1]), []).append(("cb", int(d["status"])))
        elif w[0] == "closecli" and int(w[1]) in ev: ev[int(w[1])].append(("close",))
    for c, es in ev.items():
        rets = [e for e in es if e[0] == "ret"]
        if not rets: continue
        conns = [e[1] for e in es[:es.index(rets[0])] if e[0] == "connect" and e[1] != -4]
        binds = [e for e in es[:es.index(rets[0])] if e[0] == "bind"]
        if not conns and not binds: continue            # refused before connect(2) (not produced by the generator)
        q = [f"bind {b[1]}" for b in binds]
        q.append((f"tcp 0 {conns[-1] if conns else 0}") if rets[0][2] == "tcp" else f"pipe 0 0 {conns[-1]}")
        so, closed, impl_cbs = 0, False, []
        for e in es[es.index(rets[0]) + 1:]:
            if e[0] == "so": so = e[1]
            elif e[0] == "close" and not closed: q += ["close", "destroy"]; closed = True
            elif e[0] == "cb":
                impl_cbs.append(str(e[1]))
                if not closed and e[1] == -125: q += ["close", "destroy"]; closed = True     # harness teardown closed the handle
                elif not closed: q.append(f"io {so}")
        fin = next((kv(o) for o in out if o.startswith(f"final {c} ")), None)
        if fin and not closed and int(fin["cbs"]) > len(impl_cbs) : q += ["close", "destroy"]
        if fin and int(fin["cbs"]) > len(impl_cbs): impl_cbs.append(fin["status"])
        mo = ctx.driver(["connect"], "\n".join(q) + "\n").splitlines()
        mb = [x for x in mo if x.startswith("bind")]; mo = [x for x in mo if not x.startswith("bind")]
        mret = mo[0].split()[1]; mcbs = [x.split()[2] for x in mo[1:] if x.startswith("cb")]
        mconn = kv(mo[0]).get("connects")
        if [x.split()[1] for x in mb] != [str(b[2]) for b in binds]:
            return f"uv client {c}: uv_tcp_bind returned {[b[2] for b in binds]}, model {mb}"
        if mret != str(rets[0][1]) or mcbs != impl_cbs or mconn != str(1 if conns else 0):
            return f"uv client {c} ({rets[0][2]}), connect(2) calls {conns}: impl ret={rets[0][1]} callbacks={impl_cbs}  model ret={mret} connects={mconn} callbacks={mcbs}"
    # retry handles: replay through connPre / callback ops / connPost
    for l in prog:
        w = l.split()
        if w[0] != "retry" or any(ch in w[5] for ch in "wWs"): continue
        rid = w[1]; cid = str(300 + int(rid)); kind = w[2]
        q, exp, last, so, closed = [], [], 0, 0, False
        for o in out:
            x = o.split(); d = kv(o)
            if x[0] == "sys" and d.get("cid") == cid:
                if x[1] == "connect" and d["ret"] != "-4": last = d["ret"]
                if x[1] == "soerror": so = d["val"]
            elif x[0] == "resub" and x[1] == rid:
                q.append(f"tcp 0 {last}" if kind == "tcp" else f"pipe 0 0 {last}"); exp.append(f"ret {d['r']}")
            elif x[0] == "rcb" and x[1] == rid:
                if d["status"] == "-125" and not closed: q += ["close", "destroy"]; closed = True
                elif d["status"] == "-125": q.append("destroy")
                else: q.append(f"iopre {so}")
                exp.append(f"cb {d['status']}"); so = 0
            elif x[0] == "rclose" and x[1] == rid: q.append("close"); closed = True
            elif x[0] == "rcbend" and x[1] == rid and not (q and q[-1] == "destroy"): q.append("iopost")
            elif x[0] == "rst" and x[1] == rid: q.append("st"); exp.append(f"st pollout={d['pollout']} pending={d['pending']}")
        mo = [" ".join(m.split()[:1] + m.split()[2:]) if m.startswith("cb ") else m for m in ctx.driver(["retry"], "\n".join(q) + "\n").splitlines()]
        if mo != exp:
            k = next((i for i in range(min(len(mo), len(exp))) if mo[i] != exp[i]), min(len(mo), len(exp)))
            return f"retry handle {rid}: event {k}: impl `{exp[k] if k < len(exp) else None}` model `{mo[k] if k < len(mo) else None}`; `{l}`"
    # failing connects
    for l in prog:
        w = l.split()
        if w[0] != "badconnect": continue
        c = w[1]; closed = len(w) > 3
        fin = next((kv(o) for o in out if o.startswith(f"final {c} ")), None)
        if fin is None: continue
        if w[2] == "tcp": q = ["tcp 0 -115"] + (["close", "destroy"] if closed else ["io -111"])
        elif w[2] == "longnt": q = ["pipe -22 0 0"]
        else: q = ["pipe 0 0 -2"] + (["close", "destroy"] if closed else ["io 0"])
        mo = ctx.driver(["connect"], "\n".join(q) + "\n").splitlines()
        mret = mo[0].split()[1]; mcbs = [x.split()[2] for x in mo[1:] if x.startswith("cb")]
        if mret != fin["ret"] or len(mcbs) != int(fin["cbs"]) or (mcbs and mcbs[0] != fin["status"]):
            return f"`{l}`: impl {fin}  model ret={mret} cbs={mcbs}"
    return None


def run_case(ctx, exe, prog):
    rc, out, err = ctx.run(exe, text="\n".join(prog) + "\n", timeout=60,
                           env={"ASAN_OPTIONS": "detect_leaks=1:exitcode=99"})
    return rc, out.splitlines(), err


def shrink(ctx, exe, prog, meta, sig):
    cur = list(prog); i = 0
    while i < len(cur) - 1:
        cand = cur[:i] + cur[i + 1:]
        rc, out, _ = run_case(ctx, exe, cand)
        try:
            bad = sim_monitor(cand, meta, out) if rc == 0 else None
        except Exception:
            bad = None
        if bad and bad[0] == sig:
            cur = cand
        else:
            i += 1
    return cur


def one(ctx, exe, prog, meta, diff=True):
    """returns False when the run must stop"""
    rc, out, err = run_case(ctx, exe, prog)
    ctx.count()
    if rc != 0:
        bad = wcheck_monitor(out)
        if bad:
            ctx.violation(bad[0], "C07: " + bad[1] + f" (then the harness died: {err[-200:].strip()})", {"mode": "sim", "prog": prog, "drained": sorted(meta["drained"])})
            return False
        ctx.violation("sim-crash", f"C07 simulator exited {rc}: {err[-700:]}", {"mode": "sim", "prog": prog, "drained": sorted(meta["drained"])})
        return False
    try:
        bad = sim_monitor(prog, meta, out)
    except Exception as e:
        bad = ("sim-log-unreadable", f"monitor could not read the log: {e!r}")
    if bad:
        sp = prog if bad[0] in ctx.known else shrink(ctx, exe, prog, meta, bad[0])
        if ctx.violation(bad[0], "C07: " + bad[1], {"mode": "sim", "prog": sp, "drained": sorted(meta["drained"])}):
            return False
        return True       # a recorded finding: reported as KNOWN-FINDING, run goes on
    if diff:
        d = model_diff(ctx, prog, out)
        if d:
            ctx.broken_correspondence("accept/connect/check_before_write model vs simulator", d + f"; program {prog}")
            return False
    ctx.validated()
    deferred = sum(1 for o in out if o.startswith("accept") and " seq=" in o and "r=0" in o) > 0 and any(l.startswith("accept") or l.startswith("drain") for l in prog)
    bigq = any(o.startswith("ipcafterread") and int(kv(o)["pc"]) > 8 for o in out)
    partial = sum(1 for o in out if o.startswith("tx ") and 0 <= int(kv(o)["ret"]) < int(kv(o)["asked"]))
    ctx.notes["sim_partial_sends_with_handle_requests"] = ctx.notes.get("sim_partial_sends_with_handle_requests", 0) + partial
    failed = any(o.startswith("final") and kv(o)["status"] != "0" for o in out)
    hung = any(o.startswith("hangup") for o in out) and any(o.startswith("hread") and "n" in kv(o) for o in out[next((i for i, o in enumerate(out) if o.startswith("hangup")), 0):])
    if hung:
        ctx.notes["sim_ipc_hangup_with_unread_messages_cases"] = ctx.notes.get("sim_ipc_hangup_with_unread_messages_cases", 0) + 1
    for o in out:
        if o.startswith("sys connect"):
            k = "sim_connect_results"; ctx.notes.setdefault(k, {}); r = kv(o)["ret"]; ctx.notes[k][r] = ctx.notes[k].get(r, 0) + 1
    if deferred or bigq or failed or partial or hung:
        ctx.nontrivial("S" + hashlib.sha1("\n".join(out).encode()).hexdigest()[:12])
    for k, v in (("sim_deferred_accept_cases", deferred), ("sim_ipc_queue_gt8_cases", bigq), ("sim_failed_connect_cases", failed),
                 ("sim_accept4_faults_fired", sum(1 for o in out if o.startswith("accept4 injected")))):
        ctx.notes[k] = ctx.notes.get(k, 0) + int(v)
    return True


FIXED = [
    (["wcheck", "end"], set()),
    (["ipc tpuptpuptpuptpuptpup late", "end"], set()),
    (["ipc tttttttttt imm", "end"], set()),
    (["server 0 t4 defer", "raw 0 0", "run 2", "accept 0", "raw 1 0", "raw 2 0", "run 2", "drain 0", "end"], {0}),
    (["server 0 un defer", "uvc 0 0", "run 2", "accept 0", "uvc 1 0", "run 2", "drain 0", "end"], {0}),
    (["server 0 t6 imm", "inject 24", "raw 0 0", "raw 1 0", "run 2", "raw 2 0", "run 2", "inject 23", "raw 3 0", "run 2", "raw 4 0", "run 2", "end"], set()),
    (["dblconnect 100 101", "run 3", "end"], set()),
    (["ipcbig tpu 10 4 -11 3 0 2 2", "end"], set()),
    (["server 0 t4 imm", "server 1 t6 defer", "uvcb 0 0 inuse", "uvcb 1 0 free", "uvcb 2 1 twice", "uvcb 3 1 inuse", "uvc 4 0", "run 3", "drain 1", "end"], {1}),
    (["server 0 t4 imm", "server 1 un imm", "retry 0 tcp 0 f g", "retry 1 pipe 1 f g", "retry 2 tcp 0 f fg", "retry 3 pipe 1 f fgc", "retry 4 tcp 0 f wWc",
      "retry 5 pipe 1 g s", "retry 6 tcp 0 f c", "run 2", "run 3", "end"], set()),
    (["server 0 un defer 0", "uvc 0 0", "uvc 1 0", "uvc 2 0", "uvc 3 0", "uvc 4 0", "run 3", "drain 0", "end"], {0}),
    (["server 0 un imm", "server 1 t4 imm", "cscript -4 -4 1", "uvc 0 1", "cscript -13", "uvc 1 1", "cscript -13", "uvc 2 0", "cscript -111", "uvc 3 1",
      "cscript -11", "uvc 4 1", "cscript -11", "uvc 5 0", "cscript -2", "uvc 6 0", "cscript -99", "uvc 7 0", "cscript -4 1", "uvc 8 0", "run 3", "end"], set()),
    (["ipcbig tp 300000", "end"], set()),
    (["ipchup tpu-tpu-tpu late 64 2 3 s", "end"], set()),
    (["ipchup tptptptptptp pause 3 2 2 d", "end"], set()),
    (["ipchup -tt-pppppppppu 3 1 1 1 c", "end"], set()),
    (["badconnect 100 tcp", "badconnect 101 pipe", "badconnect 102 long", "badconnect 103 longnt", "badconnect 104 tcp close", "badconnect 105 pipe close", "run 3", "wcheck", "end"], set()),
] + [
    # sender hang-up grid: claim policy x kind of hang-up that raises POLLHUP x before the first read / inside the first callback,
    # every read short (large buffer), 5 handle-bearing messages and a plain one unread
    ([f"ipchup tp-utt {pol} 65536 {pay} {when} {how}", "end"], set())
    for pol in ("imm", "late", "pause", "2") for how in ("c", "d") for when, pay in ((0, 1), (1, 2))
]


def run_sim_part(ctx, exe, replay=None, search=False):
    try:
        return _run_sim_part(ctx, exe, replay, search)
    finally:
        for f in Path("/var/tmp").glob("c07sim-*.sock"):     # left behind only when the harness crashed
            try:
                if time.time() - f.stat().st_mtime > 600: f.unlink()   # not a concurrently running check's socket
            except OSError: pass


def _run_sim_part(ctx, exe, replay=None, search=False):
    if replay:
        one(ctx, exe, replay["prog"], {"drained": set(replay.get("drained", []))})
        return 1
    n = 0
    if search:
        srng = SplitMix(ctx.seed + 99)
        for prog, dr in FIXED * 3:
            n += 1
            if not one(ctx, exe, prog, {"drained": dr}, diff=False): return n
        for _ in range(ctx.scale(1500, 6000)):
            prog, meta = gen_scenario(srng); n += 1
            if not one(ctx, exe, prog, meta, diff=False) or ctx.violations: break
        return n
    for prog, dr in FIXED:
        n += 1
        if not one(ctx, exe, prog, {"drained": dr}): return n
    for _ in range(ctx.scale(120, 2500)):
        prog, meta = gen_scenario(ctx.rng); n += 1
        if n <= 3: ctx.sample({"sim_program": prog[:16]})
        if not one(ctx, exe, prog, meta): break
    return n
