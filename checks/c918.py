"""stand-alone wrapper to run the text half of C18 (checks/c18_text.py); temporary"""
from vlib import *
import c18_text

MANIFEST = {"text": "text half of C18 (see checks/c18.py)", "note": "temporary wrapper", "design": "DESIGN.md §3 C18"}

def run(ctx):
    ctx.require_lean(c18_text.TEXT_MODULES)
    c18_text.run_text(ctx)
    ctx.cov["rule"] = ctx.cov.get("rule_text", "")
