"""C04 — timers: heap (src/heap-inl.h) and src/timer.c.
Proof: UvModel.Props.C04Heap / C04Timer.  Tie B: unit harness over heap-inl.h (BFS dump
after every op) and the real library on a virtual clock (trace + heap dump after every op),
both compared line by line with `uvdriver heap|timer`.  Monitors evaluate the property text
directly on the implementation's log."""
import itertools
from vlib import *

MANIFEST = {
 "text": "Lean 4 theorems over the model of heap-inl.h (BFS-array heap: insert/remove keep heap order and the multiset, "
         "root is minimal, for every shape/index) and of timer.c (saturating clamp, due_in, pass semantics); the model is tied "
         "to the working tree by running model and implementation on the same op sequences (heap unit harness with BFS dump "
         "after every op; real library on a virtual clock) and diffing every line, plus monitors that evaluate the property "
         "text directly on the implementation. The pointer-level model UvModel.HeapPtr (left/right/parent cells, heap_node_swap, "
         "the path-bit walks) is proved to refine the array model (Props/HeapPtrRefine) and is tied to src/heap-inl.h by a "
         "whole-memory differential after every op (harness/heapptr_ops.c, checks/heapptr_tie.py) with its own monitor.",
 "note": "Trusted: Lean kernel (axioms propext, Classical.choice, Quot.sound), pointer-tree = BFS-array abstraction "
         "(validated by dump equality), virtual clock interposition, clang/ASan. CLOCK_MONOTONIC monotonicity is assumed. "
         "timer_counter wrap after 2^64 starts not modelled. The pointer-tree = BFS-array step is no longer only trusted: "
         "UvModel.HeapPtr is proved to refine the array model (Props/HeapPtrRefine) and is tied to the C by the whole-memory "
         "differential of checks/heapptr_tie.py (harness/heapptr_ops.c).",
 "design": "DESIGN.md §3 C04",
}

U64 = 2 ** 64
CORNERS = [0, 1, 2, 3, 5, 10, 100, 2 ** 31 - 1, 2 ** 31, 2 ** 32, 2 ** 63, U64 - 2, U64 - 1]


# ----------------------------------------------------------------------------- heap
def gen_heap_case(rng, maxn, nops):
    """random insert/remove sequence; keys drawn from a small range so ties on timeout happen"""
    lines, live, nid, sid = [], [], 0, 0
    span = rng.choice([3, 8, 50])
    for _ in range(nops):
        if live and (len(live) >= maxn or rng.chance(2, 5)):
            v = live.pop(rng.below(len(live)))
            lines.append(f"rem {v}")
        else:
            lines.append(f"ins {rng.below(span)} {sid} {nid}")
            live.append(nid); nid += 1; sid += 1
    return lines


def exhaustive_heap_cases(n):
    """all key orders for n nodes (as permutations of ranks) followed by removal of each position"""
    for perm in itertools.permutations(range(n)):
        for victim in range(n):
            yield [f"ins {k} {i} {i}" for i, k in enumerate(perm)] + [f"rem {victim}"]


def heap_monitor(lines_in, out):
    """independent of the model: heap order, completeness (no CORRUPT), multiset bookkeeping"""
    live = {}
    for cmd, o in zip(lines_in, out):
        w = cmd.split()
        if w[0] == "ins":
            live[int(w[3])] = (int(w[1]), int(w[2]))
        elif w[0] == "rem":
            live.pop(int(w[1]), None)
        if "CORRUPT" in o or not o.startswith("heap"):
            return f"tree corrupt after `{cmd}`: {o}"
        ents = [tuple(map(int, e.split(":"))) for e in o.split()[1:]]
        if sorted((e[2], (e[0], e[1])) for e in ents) != sorted(live.items()):
            return f"heap content != inserted minus removed after `{cmd}`: {o}"
        for i in range(1, len(ents)):
            if ents[i][:2] < ents[(i - 1) // 2][:2]:
                return f"heap order broken at index {i} after `{cmd}`: {o}"
    return None


def run_heap(ctx, hexe, cases, label):
    """one process per batch; cases separated by `reset`"""
    text = "".join("reset\n" + "\n".join(c) + "\n" for c in cases)
    rc, iout, ierr = ctx.run(hexe, text=text)
    mout = ctx.driver(["heap"], text)
    il, ml = iout.splitlines(), mout.splitlines()
    pos = 0
    for c in cases:
        n = len(c) + 1
        ci, cm = il[pos:pos + n], ml[pos:pos + n]
        pos += n
        ctx.count()
        bad = heap_monitor(c, ci[1:]) if len(ci) == n else "harness died: " + ierr[-500:]
        if bad:
            ctx.violation("heap-monitor", f"C04 heap ({label}): {bad}", {"mode": "heap", "ops": c})
            return False
        if ci != cm:
            k = next((i for i in range(min(len(ci), len(cm))) if ci[i] != cm[i]), 0)
            ctx.broken_correspondence("heap model vs src/heap-inl.h",
                                      f"after `{(['reset'] + c)[k]}`: impl `{ci[k] if k < len(ci) else None}` model `{cm[k] if k < len(cm) else None}`; case {c}")
            return False
        ctx.validated()
        # non-trivial: an interior removal that moved something >= 1 level
        nt = False
        for j, cmd in enumerate(c):
            if cmd.startswith("rem") and j > 0:
                before, after = ci[j].split()[1:], ci[j + 1].split()[1:]
                vid = cmd.split()[1]
                idx = next((x for x, e in enumerate(before) if e.split(":")[2] == vid), None)
                if idx is not None and idx < len(before) - 1:
                    exp = before[:]; exp[idx] = before[-1]; exp.pop()
                    if exp != after:
                        nt = True
        if nt:
            ctx.nontrivial("H" + hashlib.sha1("\n".join(ci).encode()).hexdigest()[:12])
    if rc != 0:
        ctx.violation("heap-sanitizer", f"heap harness exited {rc}: {ierr[-800:]}", {"mode": "heap", "ops": cases[-1]})
        return False
    return True


# ----------------------------------------------------------------------------- timers
def gen_timer_case(rng, ntimers, nsteps):
    lines = [f"lag {rng.choice([0, 50, 150, 500, 999])}", f"init {ntimers}"]
    now = rng.choice([0, 0, 5, 1000, 2 ** 40])
    lines.append(f"time {now}")
    k_script = 0
    def tmo():
        r = rng.below(10)
        if r < 6:
            return rng.below(6)
        if r < 8:
            return rng.choice(CORNERS)
        return rng.choice([U64 - 1 - now, U64 - now, U64 - now + 1]) % U64
    def rep():
        return rng.choice([0, 0, 0, 1, 2, 3, 7, U64 - 1])
    def op(inside):
        r = rng.below(12)
        i = rng.below(ntimers)
        if r < 5:
            return ("start", i, tmo(), rep())
        if r < 7:
            return ("stop", i)
        if r < 9:
            return ("again", i)
        if r < 10:
            return ("setrep", i, rep())
        if r < 11:
            return ("close", i)
        return ("start", i, 0, rep())
    for _ in range(nsteps):
        r = rng.below(10)
        if r < 5:
            o = op(False)
            lines.append(" ".join(map(str, o)))
        elif r < 6:
            lines.append(f"duein {rng.below(ntimers)}")
            lines.append("next")
        else:
            # scripts for the next few callbacks, then advance time and run
            for kk in range(k_script, k_script + 6):
                if rng.chance(1, 2):
                    ops = [":".join(map(str, op(True))) for _ in range(rng.range(1, 3))]
                    lines.append(f"script {kk} " + " ".join(ops))
            now = min(U64 - 1, now + rng.choice([0, 1, 1, 2, 3, 5, 50]))
            if rng.chance(1, 4):
                lines.append(f"lag {rng.choice([0, 150, 999])}")
            lines.append(f"time {now}")
            lines.append("run")
            k_script += 40   # callbacks beyond the scripted ones do nothing
    return lines


def timer_monitor(lines_in, out):
    """The property text on the implementation's log, with its own bookkeeping of due times:
    never early; pass order = (due, start order); late joiners wait; stop/close prevents;
    repeat re-arm relative to pass time; due_in; saturation; clock monotone."""
    it = iter(out)
    now, ctr = 0, 0
    T = {}       # id -> dict(active, due, rep, sid, closing, hascb)
    scripts = {}
    ncb = 0
    def clamp(base, t):
        return min(base + t, U64 - 1)
    def do_start(i, t, r):
        nonlocal ctr
        if T[i]["closing"]:
            return
        T[i].update(active=True, due=clamp(now, t), rep=r, sid=ctr, hascb=True); ctr += 1
    def do_op(w, in_pass):
        if w[0] == "start":
            do_start(int(w[1]), int(w[2]), int(w[3]))
        elif w[0] == "stop":
            T[int(w[1])]["active"] = False
        elif w[0] == "again":
            t = T[int(w[1])]
            if t["hascb"] and t["rep"]:
                do_start(int(w[1]), t["rep"], t["rep"])
        elif w[0] == "setrep":
            T[int(w[1])]["rep"] = int(w[2])
        elif w[0] == "close":
            T[int(w[1])]["active"] = False; T[int(w[1])]["closing"] = True
    for cmd in lines_in:
        w = cmd.split()
        if w[0] == "lag":
            continue
        if w[0] == "init":
            T = {i: dict(active=False, due=0, rep=0, sid=0, closing=False, hascb=False) for i in range(int(w[1]))}
            o = next(it)
            if o != "loopinit time=0":
                return f"uv_now right after uv_loop_init is not the loop clock's reading (later readings would go backwards): {o}"
            next(it)
        elif w[0] == "time":
            if int(w[1]) < now:
                return "generator bug: clock went backwards"
            now = int(w[1]); o = next(it)
            if f"time={now} " not in o:
                return f"uv_now != clock after `{cmd}`: {o}"
        elif w[0] in ("start", "stop", "again"):
            r = next(it); next(it)
            exp = 0
            if w[0] == "start" and T[int(w[1])]["closing"]: exp = -22
            if w[0] == "again" and not T[int(w[1])]["hascb"]: exp = -22
            if r != f"ret {exp}":
                return f"`{cmd}` returned {r}, expected {exp}"
            if exp == 0:
                do_op(w, False)
        elif w[0] in ("setrep", "close"):
            next(it); do_op(w, False)
        elif w[0] == "duein":
            o = next(it); t = T[int(w[1])]
            # only meaningful for a started timer
            if t["active"] and o != f"duein {max(0, t['due'] - now)}":
                return f"due_in wrong: {o}, due={t['due']} now={now}"
        elif w[0] == "next":
            o = next(it)
            act = [t["due"] for t in T.values() if t["active"]]
            exp = -1 if not act else min(max(0, min(act) - now), 2 ** 31 - 1)
            if o != f"next {exp}":
                return f"next timeout {o}, expected {exp}"
        elif w[0] == "script":
            scripts[int(w[1])] = [x.split(":") for x in w[2:]]
        elif w[0] == "run":
            due = sorted((t["due"], t["sid"], i) for i, t in T.items() if t["active"] and t["due"] <= now)
            expect = [i for _, _, i in due]          # those due at pass start, in (due, start) order
            pending = list(expect)
            for i in pending:
                T[i]["active"] = False                # collected = stopped
            while True:
                o = next(it)
                if o == "ran":
                    break
                if not o.startswith("cb "):
                    return f"unexpected line in pass: {o}"
                _, i, t = o.split(); i = int(i)
                if int(t) != now:
                    return f"callback at loop time {t}, clock says {now}"
                if not pending:
                    return f"timer {i} called though not due at pass start (late joiner / early fire); due={T[i]['due']} now={now}"
                if pending[0] != i:
                    return f"order: timer {i} called, expected {pending[0]} (due order then start order)"
                pending.pop(0)
                # re-arm rule
                tt = T[i]
                if tt["rep"]:
                    do_start(i, tt["rep"], tt["rep"])
                for opw in scripts.get(ncb, []):
                    j = int(opw[1])
                    # everything that goes through uv_timer_stop takes a collected timer out of this pass
                    stops = (opw[0] in ("stop", "close")
                             or (opw[0] == "start" and not T[j]["closing"])
                             or (opw[0] == "again" and T[j]["hascb"] and T[j]["rep"] != 0))
                    do_op(opw, True)
                    if stops and j in pending:
                        pending.remove(j)
                ncb += 1
            if pending:
                return f"timers {pending} were due (<= {now}) and not stopped, but were not called"
            next(it)
    return None


def run_timer(ctx, texe, cases):
    for c in cases:
        text = "\n".join(c) + "\n"
        rc, iout, ierr = ctx.run(texe, text=text, env={"ASAN_OPTIONS": "detect_leaks=0:exitcode=99"})
        ctx.count()
        il = iout.splitlines()
        if rc != 0:
            ctx.violation("timer-crash", f"timer harness exited {rc}: {ierr[-800:]}", {"mode": "timer", "ops": c})
            return False
        try:
            bad = timer_monitor(c, il)
        except StopIteration:
            bad = "implementation log ended early"
        if bad:
            if ctx.violation("timer-monitor", f"C04 timers: {bad}", {"mode": "timer", "ops": shrink_timer(ctx, texe, c)}):
                return False
        ml = ctx.driver(["timer"], text).splitlines()
        if il != ml:
            k = next((i for i in range(min(len(il), len(ml))) if il[i] != ml[i]), min(len(il), len(ml)))
            ctx.broken_correspondence("timer model vs src/timer.c",
                                      f"line {k}: impl `{il[k] if k < len(il) else None}` model `{ml[k] if k < len(ml) else None}`; case {c}")
            return False
        ctx.validated()
        ncbs = sum(1 for l in il if l.startswith("cb "))
        if ncbs >= 2 and any(l.startswith("script") for l in c):
            ctx.nontrivial("T" + hashlib.sha1("\n".join(il).encode()).hexdigest()[:12])
    return True


def shrink_timer(ctx, texe, c):
    """greedy line removal keeping the monitor failing"""
    cur = list(c)
    i = 2
    while i < len(cur):
        cand = cur[:i] + cur[i + 1:]
        rc, out, _ = ctx.run(texe, text="\n".join(cand) + "\n", env={"ASAN_OPTIONS": "detect_leaks=0"})
        try:
            bad = timer_monitor(cand, out.splitlines()) if rc == 0 else None
        except Exception:
            bad = None
        if bad:
            cur = cand
        else:
            i += 1
    return cur


def run(ctx):
    ctx.trusted += ["tools/gen_lean.py (clang AST -> Lean for the loop-free kernels timer_clamp, timer_due_in, next_timeout, timer_less_than) and UvModel/CSem.lean",
                    "translation of the pointer tree of heap-inl.h to its BFS array (validated by the BFS dump correspondence): "
                    "proved in Props/HeapPtrRefine + tied by checks/heapptr_tie.py (the pointer-level model UvModel.HeapPtr is proved "
                    "to refine the array model and is tied to the C by whole-memory differential, harness/heapptr_ops.c)",
                    "clang/ASan; the virtual clock (clock_gettime interposed in the harness)",
                    "timer_counter modelled as unbounded Nat (uint64 in C: wrap needs 2^64 starts)"]
    ctx.assumptions += ["CLOCK_MONOTONIC readings are non-decreasing (uv_now monotone is proved given that)"]
    ctx.gen_lean()      # Tie A: regenerate the kernels from /repo, GenEq re-proves them equal to the model
    lean_ok = ctx.require_lean(["UvModel.GenEq", "UvModel.Props.C04Heap", "UvModel.Props.C04Timer", "UvModel.Props.HeapPtrRefine"])
    hexe = ctx.harness("c04_heap", ["harness/c04_heap.c"], link_lib=False)
    texe = ctx.harness("c04_timer", ["harness/c04_timer.c"])
    # src/heap-inl.h at the pointer level (left/right/parent cells) against UvModel.HeapPtr: checks/heapptr_tie.py
    import heapptr_tie
    ctx.trusted += ["harness/heapptr_ops.c (the real heap-inl.h inline functions on an array of nodes, ids printed)"]
    if heapptr_tie.run(ctx, lean_ok):
        return
    if ctx.replay:
        rp = json.loads(Path(ctx.replay).read_text())["replay"]
        if rp["mode"] == "heap" and hexe:
            run_heap(ctx, hexe, [rp["ops"]], "replay")
        elif texe:
            run_timer(ctx, texe, [rp["ops"]])
        return
    rng = ctx.rng
    ok = True
    if hexe:
        # exhaustive small scopes first, then random
        for n in range(1, ctx.scale(7, 8)):
            ok = ok and run_heap(ctx, hexe, list(exhaustive_heap_cases(n)), f"exhaustive n={n}")
        ctx.notes["heap_exhaustive_upto_nodes"] = ctx.scale(6, 7)
        cases = [gen_heap_case(rng, rng.choice([4, 9, 17, 40]), rng.range(5, 60)) for _ in range(ctx.scale(1500, 40000))]
        ok = ok and run_heap(ctx, hexe, cases, "random")
        ctx.sample({"heap_ops": cases[0][:12]})
    if texe:
        cases = [gen_timer_case(rng, rng.range(1, 6), rng.range(4, 30)) for _ in range(ctx.scale(600, 12000))]
        ok2 = run_timer(ctx, texe, cases)
        ctx.sample({"timer_program": cases[0][:14]})
        ok = ok and ok2
    if ctx.broken and not ctx.violations:
        # search: monitors only, enlarged generation
        ctx.log("obligation broken; searching for a failing input with the monitors")
        srng = SplitMix(ctx.seed + 777)
        n = 0
        if hexe:
            for _ in range(20):
                cases = [gen_heap_case(srng, srng.choice([4, 9, 17, 40, 200]), srng.range(5, 200)) for _ in range(500)]
                text = "".join("reset\n" + "\n".join(c) + "\n" for c in cases)
                rc, iout, ierr = ctx.run(hexe, text=text)
                il = iout.splitlines(); pos = 0
                for c in cases:
                    bad = heap_monitor(c, il[pos + 1:pos + 1 + len(c)]); pos += len(c) + 1; n += 1
                    if bad:
                        ctx.violation("heap-monitor", f"C04 heap (search): {bad}", {"mode": "heap", "ops": c}); break
                if ctx.violations: break
        if texe and not ctx.violations:
            for _ in range(4000):
                c = gen_timer_case(srng, srng.range(1, 7), srng.range(4, 50)); n += 1
                rc, iout, ierr = ctx.run(texe, text="\n".join(c) + "\n", env={"ASAN_OPTIONS": "detect_leaks=0"})
                try:
                    bad = timer_monitor(c, iout.splitlines()) if rc == 0 else f"crash rc={rc} {ierr[-300:]}"
                except StopIteration:
                    bad = "log ended early"
                if bad:
                    ctx.violation("timer-monitor", f"C04 timers (search): {bad}", {"mode": "timer", "ops": shrink_timer(ctx, texe, c)}); break
        ctx.notes["search"] = f"{n} extra cases run against the monitors after an obligation broke"
    ctx.cov["rule"] = ("heap: exhaustive insertion orders x removal position for small n, then random insert/remove "
                       "sequences; non-trivial = an interior removal after which the array differs from plain "
                       "move-last-into-hole (a sift happened), distinct by resulting BFS array. timers: random programs "
                       "on a virtual clock with scripted callbacks; non-trivial = >=2 callbacks and >=1 scripted callback, "
                       "distinct by implementation trace hash")
