"""C11 — file operations.
(a) proof core: UvModel.Props.C11 over the model of uv__fs_buf_offset / uv__fs_write_all / uv__fs_write /
    uv__fs_read / the EINTR loop of uv__fs_work; tie B: harness/c11_fsbuf.c (`#include "unix/fs.c"` with the
    eight transfer syscalls scripted) against `uvdriver fsbuf`, plus monitors stating the property on the
    harness log alone.
(b) route / result decision tables: theorems only (UvModel.Props.C11).
(c) "same outcome on every route and equal to POSIX": VALIDATION BY CORRESPONDENCE (differential run of
    generated op programs through sync / thread pool / io_uring / raw POSIX, harness/c11_routes.c); this
    is not a theorem about the kernel."""
from vlib import *

MANIFEST = {
 "text": "Lean 4 theorems over an executable model of the buffer-list arithmetic of src/unix/fs.c (uv__fs_buf_offset, "
         "uv__fs_write_all incl. IOV_MAX chunking / partial-write continuation / zero-result skipping, uv__fs_write and "
         "uv__fs_read call selection, EINTR loops, errno mapping): every byte of any buffer list is written exactly once, in "
         "order, at consecutive offsets unless the OS reports an error; reads are one call over the first IOV_MAX buffers and "
         "report exactly its count; plus decision-table theorems for route choice (sync / io_uring / thread pool) and result "
         "mapping. The model is tied to the working tree by a unit harness that compiles fs.c with scripted system calls and "
         "diffs every call and result against the model, with monitors stating the property on the harness log. Route "
         "equivalence and equality with POSIX is validated differentially: generated programs of ~35 kinds of file operations "
         "(incl. failing ones) run through sync, thread-pool, io_uring(SQPOLL) and raw POSIX calls on scratch trees; logs, "
         "callback counts and final trees must be identical; ASan/LSan watch uv_fs_req_cleanup.",
 "note": "Trusted: Lean kernel; the scripted-syscall shim (macros redirecting read/write/…/dlsym inside fs.c); kernel "
         "readv/writev semantics (bytes taken/filled in iovec order) are an assumption of the model. Equality with POSIX and "
         "between routes is differential testing on this kernel/file system, not a proof; io_uring needs a kernel that can "
         "create an SQPOLL ring, otherwise that route is reported as skipped. Not modelled: file-system semantics, "
         "uv_fs_chown family (not exercised: needs distinct uids), uv_fs_poll, FICLONE. Interpretations in the route comparison: "
         "times/inode/dev/blocks, directory sizes and directory nlink are not compared (mtime only when set explicitly by "
         "utime/futime/lutime); uv_fs_sendfile: only success+count vs failure is compared (which errno a refused transfer reports "
         "depends on the copy_file_range/sendfile/emulation chain; sendfile(2) is not POSIX) and copying a file onto itself is "
         "skipped on every route; mkdtemp/mkstemp names are random, so only the template match, type and mode are compared and "
         "the entry is renamed to a fixed name; readdir batches are compared as count + sorted names.",
 "design": "DESIGN.md §3 C11",
 "technique": "Lean 4 proof over executable model + correspondence (unit harness over fs.c with scripted syscalls) + "
              "4-route differential validation",
}

EINTR = 4
ERRS = [28, 5, 9, 27, 32]          # ENOSPC EIO EBADF EFBIG EPIPE


# ============================================================================ (a) unit correspondence
def rle(lens):
    out, i = [], 0
    while i < len(lens):
        j = i
        while j < len(lens) and lens[j] == lens[i]:
            j += 1
        out.append(str(lens[i]) if j - i == 1 else f"{lens[i]}*{j - i}")
        i = j
    return ",".join(out) or "-"


def unrle(s):
    if s == "-":
        return []
    out = []
    for tok in s.split(","):
        if "*" in tok:
            v, k = tok.split("*"); out += [int(v)] * int(k)
        else:
            out.append(int(tok))
    return out


def gen_lens(rng, iovmax):
    """buffer length lists: 1..5 buffers, around IOV_MAX, many zeros, runs of >= IOV_MAX zeros front/middle/end"""
    def small():
        return rng.choice([0, 0, 0, 1, 1, 2, 3, 5, 8])
    kind = rng.below(10)
    if kind < 4:
        return [small() for _ in range(rng.range(1, 5))]
    if kind < 6:
        n = rng.choice([iovmax - 1, iovmax, iovmax + 1, 2 * iovmax + 3])
        dens = rng.choice([1, 4, 50])
        return [(rng.range(1, 4) if rng.below(dens) == 0 else 0) for _ in range(max(1, n))]
    # zero runs
    run = [0] * rng.choice([iovmax, iovmax + 5, 2 * iovmax, 2 * iovmax + 1])
    some = lambda: [small() for _ in range(rng.range(1, 4))]
    where = rng.below(4)
    if where == 0:
        return run + some()
    if where == 1:
        return some() + run + some()
    if where == 2:
        return some() + run
    return run + some() + run + [rng.range(1, 5)]


def gen_write_case(rng, iovmax):
    """simulate the intended algorithm only to produce kernel answers that respect the contract
    (n <= bytes of the iovec handed over); the judge is the monitor, not this."""
    lens = gen_lens(rng, iovmax)
    off = rng.choice([-1, -1, 0, 0, 7, 4096, 2 ** 31 + 5])
    rem = list(lens)
    outs = []
    progress_ok = True
    style = rng.below(5)             # 0: all at once, 1: byte-wise, 2..: mixed
    p_err = rng.choice([0, 0, 0, 8, 3])
    guard = 0
    while rem and guard < 3000:
        guard += 1
        while rng.below(6) == 0:
            outs.append("EINTR")
            if rng.below(3) == 0:
                outs.append("EINTR")
        chunk = rem[:iovmax]
        B = sum(chunk)
        if p_err and rng.below(p_err * 3) == 0:
            outs.append(f"E{rng.choice(ERRS)}")
            break
        if B == 0:
            n = 0
        else:
            r = rng.below(100)
            if r < 2:
                n = 0; progress_ok = False
            elif style == 0 or r < 30:
                n = B
            elif style == 1 or r < 45:
                n = 1
            elif r < 75:
                # exactly at a buffer boundary inside the chunk
                ps, acc = [], 0
                for l in chunk:
                    acc += l
                    if acc > 0:
                        ps.append(acc)
                n = rng.choice(ps)
            else:
                n = rng.range(1, B)
        outs.append(str(n))
        if n == 0:
            k = 0
            while k < len(chunk) and chunk[k] == 0:
                k += 1
            if k == 0:
                break
            rem = rem[k:]
        else:
            left = n
            i = 0
            while left > 0 and rem[i] <= left:
                left -= rem[i]; i += 1
            rem = rem[i:]
            if left > 0:
                rem[0] -= left
    if rng.below(12) == 0 and outs:
        outs = outs[:rng.below(len(outs))]          # script runs out -> EIO
    return f"write_all off={off} bufs={rle(lens)} outcomes={','.join(outs) or '-'}"


def gen_read_case(rng, iovmax):
    lens = gen_lens(rng, iovmax)
    if rng.below(3) == 0:
        lens = [l + rng.below(3) for l in lens]
    off = rng.choice([-1, 0, 5, 10 ** 6])
    cap = sum(lens[:iovmax])
    r = rng.below(10)
    o = "EINTR" if r == 0 else f"E{rng.choice(ERRS)}" if r == 1 else str(rng.choice([0, cap, rng.range(0, cap), min(cap, 1)]))
    return f"read off={off} bufs={rle(lens)} outcome={o}"


def gen_bufoff_case(rng):
    lens = [rng.choice([0, 0, 1, 2, 3, 5]) for _ in range(rng.range(1, 9))]
    total = sum(lens)
    return f"buf_offset size={rng.range(0, total)} bufs={rle(lens)}"


def gen_work_case(rng):
    outs = ["EINTR"] * rng.below(5) + [rng.choice(["0", "E28", "E9", "E5"])]
    if rng.below(8) == 0:
        outs = outs[:-1]
    return f"work retry=1 outcomes={','.join(outs) or '-'}"


def parse_call(l):
    w = l.split()
    d = dict(x.split("=", 1) for x in w[2:] if "=" in x)
    c = {"sys": w[1], "off": d["off"], "iov": unrle(d["iov"]), "ret": d["ret"], "flag": "SCRIPT-EXCEEDS-IOV" in l}
    if "data" in d:
        c["data"] = [] if d["data"] == "-" else [tuple(map(int, r.split("-"))) for r in d["data"].split(",")]
    return c


def monitor_unit(cmd, out, iovmax):
    """the property text on the harness log alone.  Returns (sig, message) or None."""
    w = cmd.split()
    kv = dict(x.split("=", 1) for x in w[1:])
    if not out or not out[-1].startswith(("result", "offset")):
        return ("fsbuf-harness-output", f"no result line for `{cmd[:200]}`: {out[-2:]}")
    if w[0] == "write_all":
        lens, off = unrle(kv["bufs"]), int(kv["off"])
        total = sum(lens)
        calls = [parse_call(l) for l in out[:-1]]
        if any(c["flag"] for c in calls):
            return None                       # script broke the kernel contract for this code path: cannot judge
        res = int(out[-1].split()[1])
        pos, written, err, progress = 0, 0, None, True
        for c in calls:
            if len(c["iov"]) > iovmax:
                return ("write-iov-exceeds-iovmax", f"{c['sys']} with {len(c['iov'])} > IOV_MAX={iovmax} buffers")
            want_sys = ("pwrite" if len(c["iov"]) == 1 else "pwritev") if off >= 0 else ("write" if len(c["iov"]) == 1 else "writev")
            if c["sys"] != want_sys:
                return ("write-wrong-syscall", f"{c['sys']} used, expected {want_sys} (off={off}, {len(c['iov'])} bufs)")
            if off >= 0 and int(c["off"]) != off + written:
                return ("write-offset-not-advanced", f"call at file offset {c['off']} after {written} bytes written from {off}")
            if c["ret"].startswith("E"):
                if int(c["ret"][1:]) != EINTR:
                    err = int(c["ret"][1:])
                continue
            n = int(c["ret"])
            if n == 0 and sum(c["iov"]) > 0:
                progress = False
            for a, b in c["data"]:
                if a != pos:
                    return ("write-bytes-out-of-order", f"kernel was handed bytes {a}-{b} when {pos} was next (byte skipped or repeated)")
                pos = b
            written += n
        if pos != written:
            return ("write-bytes-out-of-order", "byte ranges do not add up to the counts")
        if err is not None:
            exp = -err if written == 0 else written
            if res != exp:
                return ("write-error-result", f"result {res}, expected {exp} after error {err} with {written} bytes written")
        elif progress:
            if written != total:
                return ("write_all-incomplete-no-error",
                        f"not all bytes written though no error: {written} of {total} bytes in {len(lens)} buffers, result {res}")
            if res != total:
                return ("write-result-count", f"result {res} but {total} bytes written")
        else:
            if res != written and not (written == 0 and res == 0):
                return ("write-result-count", f"result {res} but {written} bytes written")
        return None
    if w[0] == "read":
        lens, off = unrle(kv["bufs"]), int(kv["off"])
        calls = [parse_call(l) for l in out[:-1]]
        rw = out[-1].split()
        res = int(rw[1]); d = dict(x.split("=", 1) for x in rw[2:])
        if len(calls) != 1:
            return ("read-call-count", f"{len(calls)} system calls for one uv_fs_read")
        c = calls[0]
        cap = lens[:iovmax]
        if c["iov"] != cap:
            return ("read-iov", f"iovec lengths {rle(c['iov'])[:80]} != first min(n,IOV_MAX) buffers {rle(cap)[:80]}")
        want = ("pread" if len(cap) == 1 else "preadv") if off >= 0 else ("read" if len(cap) == 1 else "readv")
        if c["sys"] != want or (off >= 0 and int(c["off"]) != off):
            return ("read-wrong-syscall", f"{c['sys']} off={c['off']}, expected {want} off={off}")
        exp = -int(c["ret"][1:]) if c["ret"].startswith("E") else int(c["ret"])
        if res != exp:
            return ("read-count", f"result {res}, the call returned {exp}")
        fill, left = [], max(exp, 0)
        for l in lens:
            k = min(l, left) if len(fill) < iovmax else 0
            fill.append(k); left -= k
        if unrle(d["fill"]) != fill or d["inorder"] != "1":
            return ("read-fill-order", f"buffers filled {d['fill'][:80]} inorder={d['inorder']}, expected {rle(fill)[:80]}")
        return None
    if w[0] == "buf_offset":
        lens, size = unrle(kv["bufs"]), int(kv["size"])
        ow = out[-1].split()
        k = int(ow[1]); after = [tuple(map(int, x.split("+"))) for x in (ow[2].split("=", 1)[1:] + ow[3:]) if x]
        starts, acc = [], 0
        for l in lens:
            starts.append(acc); acc += l
        # expected: first index where the count is used up; partial buffer advanced by the remainder
        e, s = 0, size
        while s > 0 and lens[e] <= s:
            s -= lens[e]; e += 1
        exp_after = [(starts[i] + (s if i == e else 0), lens[i] - (s if i == e else 0)) for i in range(len(lens))]
        if k != e or after != exp_after:
            return ("buf-offset", f"uv__fs_buf_offset({lens},{size}) = {k} {after}, expected {e} {exp_after}")
        return None
    if w[0] == "work":
        outs = [] if kv["outcomes"] == "-" else kv["outcomes"].split(",")
        rw = out[-1].split()
        res = int(rw[1]); ncalls = int(rw[2].split("=")[1])
        i = 0
        while i < len(outs) and outs[i] == "EINTR":
            i += 1
        exp = -5 if i >= len(outs) else (-int(outs[i][1:]) if outs[i].startswith("E") else int(outs[i]))
        if res != exp:
            return ("work-eintr-retry" if res == -EINTR and i > 0 else "work-errno-mapping", f"req->result {res}, expected {exp} for answers {outs}")
        if ncalls != i + 1:
            return ("work-eintr-retry", f"{ncalls} calls for answers {outs}")
        return None
    return None


def split_outputs(cmds, lines):
    """group output lines per command: everything up to and including the first non-`call` line"""
    groups, cur, it = [], [], iter(lines)
    for _ in cmds:
        cur = []
        for l in it:
            cur.append(l)
            if not l.startswith("call "):
                break
        groups.append(cur)
    return groups


def run_unit(ctx, exe, batches, label, monitors_only=False):
    """batches: list of (iovmax, [cmds])"""
    ok = True
    for iovmax, cmds in batches:
        text = f"iovmax {iovmax}\n" + "\n".join(cmds) + "\n"
        rc, iout, ierr = ctx.run(exe, text=text)
        il = iout.splitlines()[1:]
        us = ctx.notes.setdefault("unit_syscalls", {"calls": 0, "eintr": 0, "errors": 0, "zero_results": 0,
                                                    "calls_with_full_iov_max": 0})
        us["calls"] += iout.count("\ncall "); us["eintr"] += iout.count(" ret=E4 ") + iout.count(" ret=E4\n")
        us["errors"] += iout.count(" ret=E") - iout.count(" ret=E4 ") - iout.count(" ret=E4\n")
        us["zero_results"] += iout.count(" ret=0 ")
        us["calls_with_full_iov_max"] += sum(1 for l in il if l.startswith("call ") and len(unrle(l.split()[3][4:])) == iovmax and iovmax > 1)
        gi = split_outputs(cmds, il)
        gm = None
        if not monitors_only:
            gm = split_outputs(cmds, ctx.driver(["fsbuf"], text).splitlines()[1:])
        for j, cmd in enumerate(cmds):
            ctx.count()
            bad = monitor_unit(cmd, gi[j], iovmax)
            if rc != 0 and j == len(cmds) - 1 and not bad:
                bad = ("fsbuf-sanitizer", f"unit harness exited {rc}: {ierr[-600:]}")
            if bad:
                if ctx.violation(bad[0], f"C11 fs.c unit ({label}, IOV_MAX={iovmax}): {bad[1]}; input `{cmd[:300]}`",
                                 {"mode": "fsbuf", "iovmax": iovmax, "lines": [shrink_unit(ctx, exe, iovmax, cmd, bad[0])]}):
                    return False
                continue
            if monitors_only:
                continue
            if gi[j] != gm[j]:
                k = next((x for x in range(min(len(gi[j]), len(gm[j]))) if gi[j][x] != gm[j][x]), min(len(gi[j]), len(gm[j])))
                ctx.broken_correspondence("fsbuf model vs src/unix/fs.c",
                                          f"IOV_MAX={iovmax} `{cmd[:300]}` line {k}: impl `{(gi[j] + [None])[k]}` model `{(gm[j] + [None])[k]}`")
                ctx.notes.setdefault("differing_op", cmd.split()[0])
                return False
            ctx.validated()
            if cmd.startswith("write_all") and len(gi[j]) >= 3:
                ctx.nontrivial("W" + hashlib.sha1("\n".join(gi[j]).encode()).hexdigest()[:12])
            elif cmd.startswith("read") and "ret=E" not in gi[j][0]:
                ctx.nontrivial("R" + hashlib.sha1("\n".join(gi[j]).encode()).hexdigest()[:12])
    return ok


def shrink_unit(ctx, exe, iovmax, cmd, sig):
    """shrink a write_all case: fewer buffers (drop zero runs / tail), keeping the same monitor signature"""
    w = cmd.split()
    if w[0] != "write_all":
        return cmd
    kv = dict(x.split("=", 1) for x in w[1:])
    lens = unrle(kv["bufs"]); outs = kv["outcomes"]
    def fails(ls, os_):
        c = f"write_all off={kv['off']} bufs={rle(ls)} outcomes={os_}"
        rc, o, _ = ctx.run(exe, text=f"iovmax {iovmax}\n{c}\n")
        b = monitor_unit(c, o.splitlines()[1:], iovmax)
        return c if (b and b[0] == sig) else None
    best = cmd
    step = max(1, len(lens) // 2)
    while step >= 1 and len(lens) > 1:
        i, changed = 0, False
        while i < len(lens) and len(lens) > 1:
            cand = lens[:i] + lens[i + step:]
            c = cand and fails(cand, outs)
            if c:
                lens, best, changed = cand, c, True
            else:
                i += step
        if not changed:
            step //= 2
    return best


def unit_batches(rng, ncases):
    batches = []
    per = 60
    for b in range(max(1, ncases // per)):
        iovmax = rng.choice([1024, 1024, 1024, 2, 3, 4, 7, 16])
        cmds = []
        for _ in range(per if iovmax != 1024 else per // 3):
            r = rng.below(20)
            cmds.append(gen_write_case(rng, iovmax) if r < 13 else gen_read_case(rng, iovmax) if r < 17
                        else gen_bufoff_case(rng) if r < 19 else gen_work_case(rng))
        batches.append((iovmax, cmds))
    return batches


CORPUS_UNIT = [(1024, [
    "write_all off=-1 bufs=0*1029,5 outcomes=0,0,5",            # L7 witness
    "write_all off=0 bufs=0*1024,3,0*1024 outcomes=0,3,0,0",
    "write_all off=10 bufs=3,0,4 outcomes=EINTR,2,1,EINTR,EINTR,4",
    "write_all off=10 bufs=3,0,4 outcomes=3,E28",
    "write_all off=-1 bufs=3,0,4 outcomes=E28",
    "write_all off=5 bufs=0 outcomes=0",
    "write_all off=5 bufs=2*2051 outcomes=2048,1,2047,6",
    "read off=0 bufs=1*1030 outcome=1024",
    "read off=-1 bufs=4 outcome=EINTR",
    "buf_offset size=4 bufs=0,3,0,4",
    "buf_offset size=3 bufs=3,0,4",
    "work retry=1 outcomes=EINTR,EINTR,EINTR,E28",
])]


# ============================================================================ (c) route differential
ROUTES = ["sync", "pool", "uring", "posix"]
PATHS = ["d0", "d1", "d0/d2", "d0/f0", "d0/f1", "d1/f0", "f2", "d0/d2/f3", "l0", "d0/l1", "nope", "d1/nope/x", "f2/x"]
FILES = ["d0/f0", "d0/f1", "d1/f0", "f2", "d0/d2/f3"]
# unusual but legal names (dot-prefixed other than . and .., space, UTF-8, NAME_MAX) in directories that get scanned
ODD = ["d0/..data", "d0/...", "d0/.x", "d1/..", "d0/a%20b", "d0/%C3%A9%E2%82%AC", "d1/%r255z", "d0/..2024_01", "d0/-", "d1/.%20"]


def gen_prog(rng, nops):
    """programs over a small name space so that ops hit existing / missing / wrong-type targets"""
    prog = ["mkdir d0 755", "mkdir d1 700", "open 0 d0/f0 rwc 644", "open 1 f2 rwc 600", "symlink gone dl"]
    opened = {0, 1}
    P = lambda: rng.choice(PATHS)
    F = lambda: rng.choice(FILES)
    S = lambda: rng.choice(sorted(opened)) if opened and rng.below(8) else rng.below(6)
    def lens():
        k = rng.below(10)
        if k < 5:
            return rle([rng.choice([0, 1, 3, 8, 100]) for _ in range(rng.range(1, 5))])
        if k < 7:
            return str(rng.choice([1, 16, 5000]))
        if k < 8:
            return rle([0] * rng.choice([1029, 2050]) + [5])
        if k < 9:
            return rle([rng.choice([0, 1, 2]) for _ in range(rng.choice([1023, 1024, 1025, 1500]))])
        return rle([2] * 3 + [0] * 1030 + [3])
    def off():
        return rng.choice([-1, -1, 0, 0, 3, 100, 5000])
    for _ in range(nops):
        r = rng.below(100)
        if r < 12:
            s = rng.below(6); opened.add(s)
            if rng.below(5) == 0:     # unnamed temporary file in a directory (or something that is not one)
                prog.append(f"open {s} {rng.choice(['d0', '.', 'd1', 'd0/d2', 'f2', 'nope'])} {rng.choice(['rwT', 'wT', 'rwTx', 'rT'])} "
                            f"{rng.choice(['644', '600', '755', '0', '777', '640'])}")
                if rng.below(2):
                    prog.append(f"linkfd {s} {rng.choice(['t0', 'd0/t1', 'f2'])}")
            else:
                prog.append(f"open {s} {rng.choice(FILES + ODD + [P()])} "
                            f"{rng.choice(['rwc', 'rwc', 'rw', 'r', 'wc', 'wct', 'rwca', 'rwcx', 'wcx', 'rd', 'w', 'rn', 'rdn', 'rp', 'rpn', 'wa', 'rwt', 'rk', 'rwcn'])} "
                            f"{rng.choice(['644', '600', '755', '0', '777', '4755', '1777', '640'])}")
        elif r < 24:
            prog.append(f"write {S()} {off()} {rng.below(50)} {lens()}")
        elif r < 34:
            prog.append(f"read {S()} {off()} {lens()}")
        elif r < 36:
            s = S(); opened.discard(s); prog.append(f"close {s}")
        elif r < 37:
            prog.append(f"umask {rng.choice(['022', '077', '027', '0', '002', '777'])}")
        elif r < 41:
            prog.append(f"ftruncate {S()} {rng.choice([0, 0, 1, 4, 10, 5000])}")
        elif r < 43:
            prog.append(f"{rng.choice(['fsync', 'fdatasync'])} {S()}")
        elif r < 46:
            prog.append(f"fstat {S()}")
        elif r < 52:
            prog.append(f"{rng.choice(['stat', 'lstat'])} {P()}")
        elif r < 53:
            prog.append(f"statfs {rng.choice(['.', 'd0', 'nope'])}")
        elif r < 58:
            prog.append(f"mkdir {rng.choice(['d0', 'd1', 'd0/d2', 'd0/d2', 'd3', 'nope/d', 'f2', 'd0/..dir', 'd1/...', 'd0/b%20c'])} {rng.choice(['755', '700', '511'])}")
        elif r < 61:
            prog.append(f"rmdir {rng.choice(['d0', 'd1', 'd0/d2', 'd3', 'f2', 'nope'])}")
        elif r < 65:
            prog.append(f"unlink {rng.choice(PATHS + ODD)}")
        elif r < 69:
            prog.append(f"rename {P()} {rng.choice(PATHS + ODD)}")
        elif r < 72:
            prog.append(f"link {P()} {rng.choice(['h0', 'd0/h1', 'd0/f0', 'nope/h'])}")
        elif r < 75:
            prog.append(f"symlink {rng.choice(['f2', 'd0', 'nope', 'd0/f0', '../x'])} {rng.choice(['l0', 'd0/l1', 'l0', 'f2'])}")
        elif r < 78:
            prog.append(f"readlink {rng.choice(['l0', 'd0/l1', 'f2', 'nope', 'd0'])}")
        elif r < 80:
            prog.append(f"realpath {rng.choice(['l0', 'd0/l1', 'd0/../f2', 'nope', 'd0/d2/.', '.'])}")
        elif r < 82:
            prog.append(f"access {P()} {rng.choice([0, 4, 2, 1, 7])}")
        elif r < 84:
            prog.append(f"chmod {P()} {rng.choice(['600', '644', '400', '755'])}")
        elif r < 85:
            if rng.below(2):
                prog.append(f"fchmod {S()} {rng.choice(['600', '640'])}")
            else:
                # ownership (root only; harness skips real changes otherwise): files, live links, dangling links, -1 for either id
                k = rng.choice(["chown", "lchown", "lchown", "fchown"])
                tgt = S() if k == "fchown" else rng.choice(["l0", "d0/l1", "f2", "d0/f0", "d0", "nope", "dl"])
                prog.append(f"{k} {tgt} {rng.choice([-1, 0, 1, 7, 1000])} {rng.choice([-1, 0, 2, 9, 1000])}")
                if k != "fchown":
                    prog.append(f"lstat {tgt}"); prog.append(f"stat {tgt}")
        elif r < 88:
            k = rng.choice(["utime", "lutime", "futime"])
            prog.append(f"{k} {S() if k == 'futime' else P()} {rng.range(1000, 999999)} {rng.range(1000, 999999)}")
        elif r < 90:
            if rng.below(2):
                prog.append(f"mkdtemp {rng.choice(['d0/tXXXXXX', 'tXXXXXX', 'nope/tXXXXXX', 'tXXXX'])}")
            else:
                s = rng.below(6); opened.add(s)
                prog.append(f"mkstemp {s} {rng.choice(['d0/sXXXXXX', 'sXXXXXX', 'nope/sXXXXXX'])}")
        elif r < 93:
            prog.append(f"scandir {rng.choice(['.', 'd0', 'd1', 'd0/d2', 'f2', 'nope', 'l0'])}")
        elif r < 95:
            d = rng.below(2)
            prog.append(f"opendir {d} {rng.choice(['.', 'd0', 'f2', 'nope'])}")
            for _ in range(rng.range(1, 3)):
                prog.append(f"readdir {d} {rng.choice([1, 2, 64])}")
            prog.append(f"closedir {d}")
        elif r < 98:
            # destinations: fresh, existing (longer / shorter / equal / the source itself / a link to it), missing dir, a directory
            prog.append(f"copyfile {rng.choice(FILES + ['nope', 'l0'])} {rng.choice(['c0', 'd0/c1', 'nope/c', 'd1', 'l0', 'h0'] + FILES)} "
                        f"{rng.choice([0, 0, 1, 2, 2, 3, 4, 6])}")
        else:
            prog.append(f"sendfile {S()} {S()} {rng.choice([0, 0, 2])} {rng.choice([1, 10, 100000])}")
    return prog


def run_routes(ctx, exe, prog, routes, tp):
    """returns dict route -> (rc, [lines], stderr)"""
    res = {}
    text = "\n".join(prog) + "\n"
    for r in routes:
        ctx._scr = getattr(ctx, "_scr", 0) + 1
        d = ctx.tmp / f"scr{ctx._scr}"
        (d / "root").mkdir(parents=True)      # a private parent: symlink targets like ../x stay inside this run's directory
        rc, out, err = ctx.run(exe, [r, d / "root"], text=text, timeout=120,
                               env={"UV_USE_IO_URING": "1", "UV_THREADPOOL_SIZE": str(tp), "C11_NOSTATX": str(getattr(ctx, "_nostatx", 0))})
        shutil.rmtree(d, ignore_errors=True)
        res[r] = (rc, out.splitlines(), err)
    return res


def judge_routes(prog, res, force_ref=None):
    """None if all logs agree, else (sig, message, route, ref)"""
    live = [r for r in res if not (res[r][1][:1] == ["ROUTE-SKIPPED uring"])]
    for r in live:
        rc, lines, err = res[r]
        bang = [l for l in lines if l.startswith("!")]
        if rc == -999 and not bang:
            k = len(lines)
            return (f"routes-hang-{r}", f"route {r}: no completion within the timeout after {k} result lines; pending op "
                                        f"`{(prog + ['(end of program)'])[min(k, len(prog))][:120]}` (request never called back / loop never returned)", r, None)
        if rc != 0 and not bang:
            return (f"routes-crash-{r}", f"route {r}: harness exited {rc}: {err[-700:]}", r, None)
        if bang:
            kind = bang[0].split()[0][1:]
            why = ("each async request must invoke its callback exactly once" if kind.startswith("cb") else
                   "after the only pending request has called back nothing may keep the loop alive (request registered twice / never unregistered)" if kind.startswith("loop") else
                   "every stat field must equal what statx(2)/statfs(2) reports for the same object at that moment" if kind.startswith("stat") else "")
            return (f"{kind}-{r}", f"route {r}: {bang[0]} ({why})", r, None)
    # majority = reference
    logs = {r: "\n".join(res[r][1]) for r in live}
    counts = {}
    for r in live:
        counts.setdefault(logs[r], []).append(r)
    if len(counts) == 1:
        return None
    ref_routes = max(counts.values(), key=lambda v: (len(v), "posix" in v))
    if force_ref is not None:
        ref_routes = next(v for v in counts.values() if force_ref in v)
    ref = "posix" if "posix" in ref_routes else ref_routes[0]
    odd = next(r for r in live if r not in ref_routes)
    a, b = res[odd][1], res[ref][1]
    k = next((i for i in range(min(len(a), len(b))) if a[i] != b[i]), min(len(a), len(b)))
    opline = prog[k] if k < len(prog) else "(final tree listing)"
    op = opline.split()[0]
    got, want = (a + ["(none)"])[k], (b + ["(none)"])[k]
    sig = f"{odd}-{op}-differs"
    if op == "read" and opline.split()[3] == "0" and {got, want} == {"read EISDIR data= tail=clean", "read 0 data= tail=clean"}:
        sig = "read-single-empty-buf-on-dir-eisdir-vs-0"
    if odd == "uring" and op == "ftruncate" and got == "ftruncate EINVAL" and opline.split()[2] != "0":
        sig = "uring-ftruncate-nonzero-len"
    note = " (all libuv routes agree with each other and deviate from the POSIX-level oracle)" if odd == "posix" else ""
    return (sig, f"route {odd} differs from {'/'.join(ref_routes)}{note} at op {k} `{opline[:120]}`: {odd} -> `{got[:200]}`, "
                 f"{ref} -> `{want[:200]}`", odd, ref)


def shrink_prog(ctx, exe, prog, sig, odd, ref, tp):
    """delta debugging over ops, keeping the same signature"""
    routes = [odd] + ([ref] if ref else [])
    def fails(p):
        j = judge_routes(p, run_routes(ctx, exe, p, routes, tp), ref)
        return j is not None and j[0] == sig
    cur = list(prog)
    n = 2
    while len(cur) >= 2:
        sz = max(1, len(cur) // n)
        reduced = False
        for i in range(0, len(cur), sz):
            cand = cur[:i] + cur[i + sz:]
            if cand and fails(cand):
                cur, n, reduced = cand, max(n - 1, 2), True
                break
        if not reduced:
            if sz == 1:
                break
            n = min(len(cur), n * 2)
    return cur


def run_route_case(ctx, exe, prog, tp, stats, nostatx=0):
    """run one program on all routes; known findings are reported, their op removed, and the rest re-run.
    nostatx = errno that every statx(2) of the harness process answers (seccomp filter; 0 = statx available): the stat
    family then runs its stat(2)/lstat(2)/fstat(2) fallback; the io_uring route never issues statx(2) and is left out"""
    ctx._nostatx = nostatx
    try:
        return _run_route_case(ctx, exe, prog, tp, stats, nostatx)
    finally:
        ctx._nostatx = 0


def _run_route_case(ctx, exe, prog, tp, stats, nostatx):
    for _ in range(12):
        res = run_routes(ctx, exe, prog, [r for r in ROUTES if not (nostatx and r == "uring")], tp)
        ctx.count()
        if any(v[1][:1] == ["ROUTE-SKIPPED nostatx"] for v in res.values()):
            ctx.notes["nostatx_configuration"] = "SKIPPED: this sandbox refuses a seccomp filter"
            return True
        if nostatx:
            res["uring"] = (0, ["ROUTE-SKIPPED uring"], "")
            stats["nostatx_programs"] = stats.get("nostatx_programs", 0) + 1
            stats["nostatx_stat_calls"] = stats.get("nostatx_stat_calls", 0) + sum(1 for p in prog if p.split()[0] in ("stat", "lstat", "fstat"))
        if res["uring"][1][:1] == ["ROUTE-SKIPPED uring"]:
            stats["uring_skipped"] += 1
        for r in ("pool", "uring"):
            m = re.search(r"uring_ops=(\d+) pool_ops=(\d+) btime_stats=(\d+)", res[r][2])
            if m:
                stats["stats_with_birthtime_" + r] = stats.get("stats_with_birthtime_" + r, 0) + int(m.group(3))
                stats[r + "_via_uring"] += int(m.group(1)); stats[r + "_via_pool"] += int(m.group(2))
        j = judge_routes(prog, res)
        if j is None:
            ctx.validated()
            log = res["sync"][1]
            nfail = sum(1 for l in log[:len(prog)] if re.search(r" E[A-Z]+", l))
            multi = any(re.match(r"(read|write) \S+ \S+ (\S+ )?\S*[,*]", p) for p in prog)
            stats["ops"] += len(prog); stats["failing_ops"] += nfail
            for p in prog:
                stats["kinds"].add(p.split()[0])
            if nfail >= 1 and multi:
                ctx.nontrivial("P" + hashlib.sha1("\n".join(log).encode()).hexdigest()[:12])
            return True
        sig, msg, odd, ref = j
        if sig + ("-nostatx" if nostatx else "") in ctx.known:
            small = prog
        else:
            small = shrink_prog(ctx, exe, prog, sig, odd, ref, tp)
        if nostatx:
            sig += "-nostatx"
            msg += f" [configuration: statx(2) answers errno {nostatx}, so uv__fs_stat/lstat/fstat use their stat(2)/lstat(2)/fstat(2) fallback]"
        if ctx.violation(sig, f"C11 routes: {msg}", {"mode": "routes", "prog": small, "threadpool": tp, "nostatx": nostatx}):
            return False
        # known finding: drop the op where the logs first part and validate the rest of the program
        a, b = res[odd][1], res[ref][1] if ref else []
        k = next((i for i in range(min(len(a), len(b))) if a[i] != b[i]), None)
        if k is None or k >= len(prog):
            return True
        prog = prog[:k] + prog[k + 1:]
    return True


CORPUS_ROUTES = [
    ["open 0 f rwc 644", "write 0 -1 7 8", "ftruncate 0 4", "fstat 0"],
    ["open 0 f rwc 644", "write 0 -1 3 0*1029,5", "read 0 0 0*1029,8", "fstat 0", "close 0", "close 0"],
    ["mkdir d0 755", "mkdtemp d0/tXXXXXX", "mkstemp 1 d0/sXXXXXX", "scandir d0", "opendir 0 d0", "readdir 0 1",
     "readdir 0 64", "closedir 0", "closedir 0", "unlink d0", "rmdir nope", "readlink d0"],
]


# statx-unavailable configuration: {stat, lstat, fstat} x {regular file, directory, link to file, link to directory, dangling link,
# missing path, path through a file} on sync / thread pool / raw POSIX, every field against fstatat(2)
NOSTATX_PROG = ["mkdir d0 755", "open 0 d0/f0 rwc 640", "write 0 -1 7 11", "open 1 d0 rd 0", "symlink d0/f0 lf", "symlink d0 ld",
                "symlink gone dl", "symlink lf ll", "chmod d0/f0 4750"] + \
               [f"{k} {t}" for t in ("d0/f0", "d0", "lf", "ld", "dl", "ll", "nope", "d0/f0/x", "ld/f0", ".") for k in ("stat", "lstat")] + \
               ["fstat 0", "fstat 1", "fstat 5", "close 0", "fstat 0", "scandir .", "readlink lf", "realpath ld", "access dl 0", "copyfile lf c0 0",
                "lstat c0", "stat c0"]
NOSTATX_ERRNOS = [38, 1, 22, 95]          # ENOSYS EPERM EINVAL EOPNOTSUPP: the four answers uv__fs_statx treats as "no statx"


def load_corpus():
    """corpus/C11/*.fsbuf (first line `iovmax N`) and *.prog (route programs) run first, every time"""
    unit, progs = [], []
    d = VERIF / "corpus" / "C11"
    for f in sorted(d.glob("*.fsbuf")):
        ls = [l for l in f.read_text().splitlines() if l.strip()]
        unit.append((int(ls[0].split()[1]), ls[1:]))
    for f in sorted(d.glob("*.prog")):
        progs.append([l for l in f.read_text().splitlines() if l.strip()])
    return unit, progs


# ============================================================================ (d) request life cycle vs UvModel.FsReq
# variant name (harness/c11_reqlife.c issue()) -> (model op, path, new_path, nbufs, argsok, kernel answer)
REQ_VARIANTS = {
    "open-ok": ("open", "f", "", 0, 1, "ok1000"), "open-enoent": ("open", "nope", "", 0, 1, "E2"),
    "close-ebadf": ("close", "", "", 0, 1, "E9"),
    "read-1": ("read", "", "", 1, 1, "ok1"), "read-6": ("read", "", "", 6, 1, "ok6"), "read-6-ebadf": ("read", "", "", 6, 1, "E9"),
    "read-nbufs0": ("read", "", "", 0, 0, "E22"),
    "write-1": ("write", "", "", 1, 1, "ok1"), "write-6": ("write", "", "", 6, 1, "ok6"), "write-6-ebadf": ("write", "", "", 6, 1, "E9"),
    "write-null": ("write", "", "", 3, 0, "E22"),
    "stat-ok": ("stat", "f", "", 0, 1, "ok0"), "stat-enoent": ("stat", "nope", "", 0, 1, "E2"),
    "lstat-ok": ("lstat", "l", "", 0, 1, "ok0"), "lstat-enoent": ("lstat", "nope", "", 0, 1, "E2"),
    "fstat-ok": ("fstat", "", "", 0, 1, "ok0"), "fstat-ebadf": ("fstat", "", "", 0, 1, "E9"),
    "statfs-ok": ("statfs", ".", "", 0, 1, "ok0"), "statfs-enoent": ("statfs", "nope", "", 0, 1, "E2"),
    "mkdir-ok": ("mkdir", "m", "", 0, 1, "ok0"), "mkdir-eexist": ("mkdir", "d", "", 0, 1, "E17"),
    "rmdir-enoent": ("rmdir", "nope", "", 0, 1, "E2"), "unlink-enoent": ("unlink", "nope", "", 0, 1, "E2"),
    "unlink-eisdir": ("unlink", "d", "", 0, 1, "E21"),
    "rename-ok": ("rename", "f", "f.ren", 0, 1, "ok0"), "rename-enoent": ("rename", "nope", "x", 0, 1, "E2"),
    "link-ok": ("link", "f", "hl", 0, 1, "ok0"), "link-eexist": ("link", "f", "d", 0, 1, "E17"),
    "symlink-ok": ("symlink", "f", "sl", 0, 1, "ok0"), "symlink-eexist": ("symlink", "f", "l", 0, 1, "E17"),
    "readlink-ok": ("readlink", "l", "", 0, 1, "ok0"), "readlink-einval": ("readlink", "f", "", 0, 1, "E22"),
    "realpath-ok": ("realpath", "l", "", 0, 1, "ok0"), "realpath-enoent": ("realpath", "nope", "", 0, 1, "E2"),
    "access-ok": ("access", "f", "", 0, 1, "ok0"), "access-enoent": ("access", "nope", "", 0, 1, "E2"),
    "chmod-enoent": ("chmod", "nope", "", 0, 1, "E2"), "fchmod-ok": ("fchmod", "", "", 0, 1, "ok0"),
    "utime-ok": ("utime", "f", "", 0, 1, "ok0"), "futime-ebadf": ("futime", "", "", 0, 1, "E9"), "lutime-ok": ("lutime", "l", "", 0, 1, "ok0"),
    "mkdtemp-ok": ("mkdtemp", "tXXXXXX", "", 0, 1, "ok0"), "mkdtemp-enoent": ("mkdtemp", "nope/tXXXXXX", "", 0, 1, "E2"),
    "mkstemp-ok": ("mkstemp", "sXXXXXX", "", 0, 1, "ok1000"), "mkstemp-einval": ("mkstemp", "sXX", "", 0, 1, "E22"),
    "copyfile-ok": ("copyfile", "f", "cp", 0, 1, "ok0"), "copyfile-enoent": ("copyfile", "nope", "cp", 0, 1, "E2"),
    "copyfile-badflags": ("copyfile", "f", "cp", 0, 0, "E22"),
    "sendfile-ebadf": ("sendfile", "", "", 0, 1, "E9"), "ftruncate-ok": ("ftruncate", "", "", 0, 1, "ok0"),
    "fsync-ok": ("fsync", "", "", 0, 1, "ok0"), "fdatasync-ebadf": ("fdatasync", "", "", 0, 1, "E9"), "fdatasync-ok": ("fdatasync", "", "", 0, 1, "ok0"),
    "scandir-d": ("scandir", "d", "", 0, 1, "ok3"), "scandir-e": ("scandir", "e", "", 0, 1, "ok0"),
    "scandir-nope": ("scandir", "nope", "", 0, 1, "E2"), "scandir-f": ("scandir", "f", "", 0, 1, "E20"),
    "opendir-d": ("opendir", "d", "", 0, 1, "ok0"), "opendir-nope": ("opendir", "nope", "", 0, 1, "E2"),
    "readdir-1": ("readdir", "", "", 0, 1, "ok1"), "readdir-4": ("readdir", "", "", 0, 1, "ok3"), "readdir-null": ("readdir", "", "", 0, 0, "E22"),
    "readdir-ebadf": ("readdir", "", "", 0, 1, "E9"),
    "closedir-ok": ("closedir", "", "", 0, 1, "ok0"), "closedir-null": ("closedir", "", "", 0, 0, "E22"),
    "chown-enoent": ("chown", "nope", "", 0, 1, "E2"), "fchown-ebadf": ("fchown", "", "", 0, 1, "E9"), "lchown-enoent": ("lchown", "nope", "", 0, 1, "E2"),
}
REQ_SUBMITTERS = {"close", "fsync", "fdatasync", "ftruncate", "link", "mkdir", "symlink", "rename", "unlink", "open", "read", "write",
                  "stat", "fstat", "lstat"}
REQ_PATH1 = {"access", "chmod", "chown", "lchown", "lutime", "lstat", "mkdir", "open", "scandir", "opendir", "readlink", "realpath", "rmdir",
             "stat", "statfs", "unlink", "utime"}
REQ_PATH2 = {"link", "rename", "symlink", "copyfile"}
# completions that may be rewritten to -EOPNOTSUPP and re-run in the pool: the kernel already ran the op once, so only idempotent ones
REQ_IDEMPOTENT = {"stat-ok", "stat-enoent", "lstat-ok", "lstat-enoent", "fstat-ok", "fstat-ebadf", "read-1", "read-6", "read-6-ebadf",
                  "write-6-ebadf", "fsync-ok", "fdatasync-ok", "fdatasync-ebadf", "ftruncate-ok", "close-ebadf", "open-enoent",
                  "mkdir-eexist", "unlink-enoent", "unlink-eisdir", "rename-enoent", "link-eexist", "symlink-eexist"}
REQ_OWNED = ("path", "path2", "bufs", "statx", "res", "dents", "dent", "name")


def kernel_version():
    m = re.match(r"(\d+)\.(\d+)(?:\.(\d+))?", os.uname().release)
    return int(m.group(1)) * 65536 + int(m.group(2)) * 256 + min(int(m.group(3) or 0), 255)


def req_oom_effective(op, cb, nbufs):
    """does the front end allocate at all (then oom=1 makes its first allocation fail)"""
    if op in ("mkdtemp", "mkstemp"):
        return True
    if op in REQ_PATH1 or op in REQ_PATH2:
        return bool(cb)
    if op == "read":
        return bool(cb) and nbufs > 4
    if op == "write":
        return nbufs > 4
    return False


def req_cases(full, rng):
    """(variant, cb, ring, cancel, fallback, oom, nexts, cleanups); exhaustive in variant x cb x ring x cancel x fallback x oom;
    `cleanups` in 0..2 and the number of scandir_next calls are exhaustive in the thorough tier, drawn per case otherwise"""
    out = []
    for v, (op, path, npath, nbufs, argsok, ans) in REQ_VARIANTS.items():
        for cb in (0, 1):
            for ring in ((0, 1) if cb else (0,)):
                for cancel in ((0, 1) if cb else (0,)):
                    fbs = (0, 1) if (ring and op in REQ_SUBMITTERS and v in REQ_IDEMPOTENT) else (0,)
                    for fb in fbs:
                        for oom in ((0, 1) if req_oom_effective(op, cb, nbufs) and not (cancel or fb) else (0,)):
                            nx = list(range(0, 6)) if op == "scandir" and not oom else [0]
                            cl = [0, 1, 2]
                            if not full:
                                nx = sorted(set([rng.choice(nx), rng.choice(nx)]))
                                cl = sorted(set([rng.choice([1, 2]), rng.choice(cl)]))
                            for n in nx:
                                for c in cl:
                                    out.append((v, cb, ring, cancel, fb, oom, n, c))
    return out


def req_model_input(case, kv):
    v, cb, ring, cancel, fb, oom, nexts, cleanups = case
    op, path, npath, nbufs, argsok, ans = REQ_VARIANTS[v]
    lines = [f"case op={op} cb={cb} ring={ring} kernel={kv} nbufs={nbufs} argsok={argsok} oom={oom} plen={len(path)} nlen={len(npath)} outs={ans}"]
    rejected = (not argsok) or (oom and req_oom_effective(op, cb, nbufs))
    lines.append("submit")
    if cb and not rejected:
        if cancel:
            lines.append("cancel")
        if ring and op in REQ_SUBMITTERS:
            res = int(ans[2:]) if ans.startswith("ok") else -int(ans[1:])
            lines += ["cqe -95", f"work {ans}", "done"] if fb else [f"cqe {res}"]
        else:
            lines += ["done"] if cancel else [f"work {ans}", "done"]
    if not rejected:
        lines += ["next"] * nexts
    lines += ["cleanup"] * cleanups
    return lines


def req_model_observable(lines):
    """the model prints one line per event; the harness cannot look between uv__fs_work and uv__fs_done, and sees an io_uring
    completion from inside the callback"""
    out = []
    for l in lines:
        if l.startswith("work "):
            continue
        if l.startswith("cqe "):
            if " cbs=0" in l:          # the -EOPNOTSUPP completion: re-posted, no callback yet
                continue
            l = "done" + l[3:]
        out.append(l)
    return out


def req_monitor(case, obs):
    """the property on the harness log alone: (sig, message) or None"""
    v, cb, ring, cancel, fb, oom, nexts, cleanups = case
    op, path, npath, nbufs, argsok, ans = REQ_VARIANTS[v]
    def f(l, k):
        m = re.search(rf" {k}=(\S+)", l)
        return m.group(1) if m else None
    ncl, first_cl, done_seen = 0, None, not cb
    for l in obs:
        ev = l.split()[0]
        live = [] if f(l, "live") == "-" else f(l, "live").split(",")
        if any(x.startswith("other[") for x in live):
            return (f"reqlife-unreferenced-block-{op}", f"after `{ev}` a heap block allocated for the request is referenced by no request field: `{l}`")
        if "dangling" in l:
            return (f"reqlife-dangling-field-{op}", f"after `{ev}` a request field points at freed memory: `{l}`")
        if ev == "done":
            done_seen = True
        if ev == "submit" and cb == 0 and (f(l, "active") != "0" or f(l, "route") not in ("sync", "rejected")):
            return (f"reqlife-sync-registers-{op}", f"a request without callback must run inline and never be counted in the loop: `{l}`")
        if ev in ("done", "next", "cleanup") and f(l, "route") != "rejected":
            if f(l, "active") != "0":
                return (f"reqlife-active-after-done-{op}", f"request still counted in loop->active_reqs after completion: `{l}`")
            if f(l, "cbs") != ("1" if cb and done_seen else "0"):
                return (f"reqlife-cb-count-{op}", f"callback count after completion must be {1 if cb else 0}: `{l}`")
            r = int(f(l, "result"))
            was_cancelled = any(x.startswith("cancel ret=0") for x in obs)       # then the kernel was never asked
            if (r > 0 and ans.startswith("E") and not was_cancelled) or r < -4095:
                return (f"reqlife-result-not-normalised-{op}", f"req->result must be >= 0 or a negated errno (kernel answer {ans}): `{l}`")
        if ev in ("submit", "cancel", "done", "next") and cb and f(l, "route") != "rejected" and (op in REQ_PATH1 or op in REQ_PATH2) \
                and not (ev == "submit" and f(l, "ret") != "0"):
            if f(l, "path") != "heap" or not any(x.startswith("path") for x in live):
                return (f"reqlife-path-lifetime-{op}", f"the path copy of an asynchronous request must stay valid until uv_fs_req_cleanup: `{l}`")
        if cb == 0 and op in REQ_PATH1 | REQ_PATH2 and any(x.startswith("path") for x in live):
            return (f"reqlife-sync-path-copied-{op}", f"a synchronous request borrows the caller's path: `{l}`")
        if ev == "cleanup":
            ncl += 1
            owned = [x for x in live if x.split("[")[0] in REQ_OWNED]
            if owned:
                return (f"cleanup-residue-{op}", f"ledger not empty after uv_fs_req_cleanup ({v}, cb={cb} ring={ring} cancel={cancel} "
                                                 f"fallback={fb} nexts={nexts}): still live {owned}: `{l}`")
            if f(l, "path") != "null" or f(l, "bufs") != "null" or f(l, "ptr") != "null" or f(l, "newpath") != "0":
                return (f"cleanup-fields-not-null-{op}", f"uv_fs_req_cleanup must leave path/new_path/bufs/ptr NULL: `{l}`")
            if first_cl is None:
                first_cl = l
            elif l != first_cl:
                return (f"cleanup-not-idempotent-{op}", f"second uv_fs_req_cleanup changed the state: `{first_cl}` then `{l}`")
    return None


def run_reqlife(ctx, exe, cases, monitors_only=False):
    """returns False when a violation stops the run"""
    kv = kernel_version()
    d = ctx.tmp / f"rl{len(cases)}_{int(monitors_only)}"; d.mkdir(exist_ok=True)
    text = "".join(f"case {c[0]} cb={c[1]} ring={c[2]} cancel={c[3]} fallback={c[4]} oom={c[5]} nexts={c[6]} cleanups={c[7]}\n" for c in cases)
    rc, out, err = ctx.run(exe, [d], text=text, env={"UV_USE_IO_URING": "1", "UV_THREADPOOL_SIZE": "1"}, timeout=300)
    shutil.rmtree(d, ignore_errors=True)
    ls = out.splitlines()
    groups, cur = [], None
    for l in ls[1:]:
        if l.startswith("case "):
            cur = []
        elif l.startswith("end"):
            if cur is not None:
                groups.append((cur, l)); cur = None
        elif cur is not None:
            cur.append(l)
    no_ring = ls[:1] == ["start ring=0"]
    if no_ring:
        ctx.notes["reqlife_uring"] = "skipped: no SQPOLL ring"
    crashed = rc != 0 or len(groups) != len(cases) or ls[-1:] != ["bye"]
    if crashed and len(groups) == len(cases):
        # every case was logged (e.g. LeakSanitizer complained at exit): let the per-case monitors name the state first
        for c, (obs, endl) in zip(cases, groups):
            bad = None if obs == ["skipped-no-ring"] else req_monitor(c, obs)
            if bad:
                ctx.violation(bad[0], f"C11 request life cycle: {bad[1]}", {"mode": "reqlife", "cases": [list(c)]})
                return False
    if crashed:
        k = len(groups)
        at = cases[k] if k < len(cases) else None
        what = "did not finish (request never completed / loop never returned)" if rc == -999 else f"exited {rc}"
        ctx.violation(f"reqlife-crash-{REQ_VARIANTS[at[0]][0] if at else 'exit'}",
                      f"C11 request life cycle: harness {what} in case {at}: {err[-700:]}", {"mode": "reqlife", "cases": [list(at)] if at else []})
        return False
    model = None
    if not monitors_only:
        mtext = "\n".join("\n".join(req_model_input(c, kv)) for c in cases) + "\n"
        mlines = ctx.driver(["fsreq"], mtext).splitlines()
        model, i = [], 0
        for c in cases:
            n = len(req_model_input(c, kv)) - 1
            model.append(req_model_observable(mlines[i:i + n])); i += n
    st = ctx.notes.setdefault("reqlife", {"cases": 0, "cancelled": 0, "uring": 0, "fallback": 0, "rejected": 0, "events": 0})
    for j, c in enumerate(cases):
        obs, endl = groups[j]
        ctx.count()
        if obs == ["skipped-no-ring"]:
            continue
        st["cases"] += 1; st["events"] += len(obs)
        st["cancelled"] += any(l.startswith("cancel ret=0") for l in obs); st["uring"] += "route=uring" in obs[0]
        st["fallback"] += c[4]; st["rejected"] += "route=rejected" in obs[0]
        bad = req_monitor(c, obs)
        if not bad and "overflow" in endl:
            bad = ("reqlife-live-table-overflow", "more than 8192 live blocks in one request")
        if bad:
            if ctx.violation(bad[0], f"C11 request life cycle: {bad[1]}", {"mode": "reqlife", "cases": [list(c)]}):
                return False
            continue
        if monitors_only:
            continue
        mbad = req_monitor(c, model[j]) or (("model-bad-free", "BADFREE") if any("BADFREE" in l or "ILLEGAL" in l for l in model[j]) else None)
        if mbad:
            # the statements of Props/C11Req that are not yet theorems (no_double_free, cleanup_frees_all, path_lifetime, ...) are
            # evaluated on the model for every case that is run: a model that breaks them is no model of the property
            ctx.broken_correspondence("FsReq model satisfies the life-cycle statements on every generated case", f"case {c}: {mbad[0]}: {mbad[1]}")
            return False
        if obs != model[j]:
            k = next((x for x in range(min(len(obs), len(model[j]))) if obs[x] != model[j][x]), min(len(obs), len(model[j])))
            ctx.broken_correspondence("FsReq model vs request life cycle of src/unix/fs.c",
                                      f"case {c}: event {k}: impl `{(obs + [None])[k]}` model `{(model[j] + [None])[k]}`")
            ctx.notes.setdefault("differing_op", REQ_VARIANTS[c[0]][0])
            return False
        ctx.validated()
        ctx.nontrivial("L" + hashlib.sha1("\n".join(obs).encode()).hexdigest()[:12])
    return True


# ============================================================================ run
def run(ctx):
    ctx.trusted += ["scripted-syscall shim of harness/c11_fsbuf.c (read/write/…/dlsym redirected inside fs.c by macros)",
                    "POSIX readv/writev semantics: bytes are taken from / filled into the iovec in order (model assumption `scatter`, `Call.written`)",
                    "clang/ASan/LSan"]
    ctx.assumptions += ["each answered system call returns n <= bytes handed over, and n > 0 when it was handed >= 1 byte and did not fail "
                        "(hypotheses Bounded/Progress of write_all_complete)",
                        "route equality and equality with POSIX: validated differentially on this kernel and file system only"]
    ctx.notes["validation_by_correspondence"] = ("part (c) — same outcome on sync / thread pool / io_uring and equal to POSIX — is differential "
                                                 "testing of generated op programs on four routes, NOT a theorem about the kernel; counted in "
                                                 "traces_validated_against_impl")
    ctx.trusted += ["tools/gen_lean.py (clang AST -> Lean for the loop-free kernels fs_write_route, fs_read_route, fs_work_result) and UvModel/CSem.lean"]
    # Tie A: uv__fs_write / uv__fs_read / the result normalisation of uv__fs_work regenerated from /repo,
    # GenEq/C11 re-proves them = FsBuf.writeSys / readSys (on the iovmax-clamped count) / mapResult
    gen_ok = ctx.gen_lean(need=["C11"])
    proofs_ok = ctx.require_lean(["UvModel.GenEq.C11", "UvModel.Props.C11", "UvModel.Props.C11Req"]) and gen_ok
    uexe = ctx.harness("c11_fsbuf", ["harness/c11_fsbuf.c"], link_lib=True)
    rexe = ctx.harness("c11_routes", ["harness/c11_routes.c"], link_lib=True)
    stats = {"uring_skipped": 0, "pool_via_uring": 0, "pool_via_pool": 0, "uring_via_uring": 0, "uring_via_pool": 0,
             "ops": 0, "failing_ops": 0, "kinds": set()}
    if ctx.replay:
        rp = json.loads(Path(ctx.replay).read_text())["replay"]
        if rp["mode"] == "fsbuf" and uexe:
            run_unit(ctx, uexe, [(rp["iovmax"], rp["lines"])], "replay")
        elif rp["mode"] == "routes" and rexe:
            run_route_case(ctx, rexe, rp["prog"], rp.get("threadpool", 4), stats, rp.get("nostatx", 0))
        elif rp["mode"] == "reqlife":
            lexe = ctx.harness("c11_reqlife", ["harness/c11_reqlife.c"], link_lib=True)
            if lexe:
                run_reqlife(ctx, lexe, [tuple(c) for c in rp["cases"]])
        return
    rng = ctx.rng
    ok = True
    ctx.log("lean + harnesses ready")
    if uexe:
        ok = run_unit(ctx, uexe, load_corpus()[0] + CORPUS_UNIT, "corpus")
        if ok:
            ok = run_unit(ctx, uexe, unit_batches(rng, ctx.scale(12000, 150000)), "generated")
        ctx.sample({"fsbuf": gen_write_case(SplitMix(ctx.seed), 4)})
    ctx.log("unit correspondence done")
    if rexe:
        t0 = time.time()
        budget = ctx.scale(28, 400)
        progs = [(p, 4) for p in load_corpus()[1] + CORPUS_ROUTES]
        n = 0
        while ok:
            if progs:
                prog, tp = progs.pop(0)
            else:
                if time.time() - t0 > budget or n >= ctx.scale(400, 20000):
                    break
                prog, tp = gen_prog(rng, rng.range(12, ctx.scale(45, 120))), rng.choice([1, 2, 4, 16])
            n += 1
            if not run_route_case(ctx, rexe, prog, tp, stats):
                ok = False
            if n == 4:
                ctx.sample({"route_program": prog[:12]})
        # the same differential with statx(2) unavailable (one process per configuration: libuv caches "no statx" in a static)
        if ok:
            en = NOSTATX_ERRNOS if ctx.tier != "quick" else [NOSTATX_ERRNOS[0], rng.choice(NOSTATX_ERRNOS[1:])]
            for e in en:
                ok = ok and run_route_case(ctx, rexe, NOSTATX_PROG, rng.choice([1, 4]), stats, nostatx=e)
            for _ in range(ctx.scale(2, 40)):
                if not ok:
                    break
                ok = run_route_case(ctx, rexe, gen_prog(rng, rng.range(12, 40)), rng.choice([1, 2, 4]), stats, nostatx=rng.choice(NOSTATX_ERRNOS))
        stats["kinds"] = sorted(stats["kinds"])
        ctx.notes["routes"] = dict(stats, programs=n)
        if stats["uring_skipped"]:
            ctx.notes["uring_route"] = f"SKIPPED in {stats['uring_skipped']} programs: the SQPOLL ring could not be created"
        elif n:
            ctx.notes["uring_route"] = (f"{stats['uring_via_uring']} requests completed through io_uring, "
                                        f"{stats['uring_via_pool']} of that route's requests went to the thread pool (ops without a submitter)")
    # uv_fs_req_cleanup in every result / iteration state with exact heap accounting (harness/c11_cleanup.c)
    cexe = ctx.harness("c11_cleanup", ["harness/c11_cleanup.c"], link_lib=True) if not ctx.replay or "cleanup" in str(ctx.replay) else None
    if cexe:
        ref, ncase = None, 0
        for m in ("sync", "pool", "uring"):
            d = ctx.tmp / f"cl{m}"; d.mkdir()
            rc, out, err = ctx.run(cexe, [m, d], env={"UV_USE_IO_URING": "1", "UV_THREADPOOL_SIZE": "1"}, timeout=300)
            ls = out.splitlines()
            if "ROUTE-SKIPPED" in ls:
                ctx.notes["cleanup_accounting_" + m] = "skipped: no SQPOLL ring"; continue
            cases = [l for l in ls if l.startswith("case ")]
            ctx.count(len(cases)); ncase += len(cases)
            bad = [l for l in cases if not re.search(r" uvblocks=0 heap=0 fds=0 ", l) or "FOREIGN-POINTER-TOUCHED" in l]
            if not bad and (rc != 0 or not ls or not ls[-1].startswith("end ")):
                marks = re.findall(r"^at (\S+ \d+)$", err, re.M)
                rep = "\n".join(l for l in err.splitlines() if not l.startswith("at "))
                ctx.violation(f"cleanup-harness-crash-{m}", f"C11 cleanup accounting ({m}) exited {rc} in state `{marks[-1] if marks else '?'}` "
                                                            f"(uv_fs_req_cleanup must be safe in every result state): {rep[:900]}",
                              {"mode": "cleanup", "route": m, "state": marks[-1] if marks else None})
                continue
            if bad:
                seen, stop = set(), False
                for b in bad:
                    kind = b.split()[1].split("-")[0]
                    kind = b.split()[1].split("-")[1] if kind == "cancel" else kind
                    if kind in seen:
                        continue
                    seen.add(kind)
                    ctx.violation(f"cleanup-residue-{kind}",
                                  f"C11 ({m} route): after uv_fs_req_cleanup the request still owns memory / descriptors, or touched the "
                                  f"caller's pointers: `{b}` (uvblocks = live blocks of libuv's allocator, heap = bytes live in the process "
                                  f"heap, fds = open descriptors; {len(bad)} of {len(cases)} states affected)",
                                  {"mode": "cleanup", "route": m, "case": b.split()[1]})
                cases = [l for l in cases if l not in bad]
            res = [re.sub(r" cb=\d+$", "", l) for l in cases if not l.startswith("case cancel")]
            if ref is None:
                ref = res
            elif res != ref:
                k = next(i for i in range(min(len(res), len(ref))) if res[i] != ref[i])
                ctx.violation(f"cleanup-result-differs-{m}", f"C11 cleanup cases: {m} `{res[k]}` vs sync `{ref[k]}`", {"mode": "cleanup", "route": m})
            else:
                ctx.validated(len(cases))
            for l in cases:
                ctx.nontrivial("C" + l.split()[1])
        ctx.notes["cleanup_accounting"] = (f"{ncase} request states (46 kinds x success/failure, scandir after k of n next-calls incl. EOF, "
                                           "opendir/readdir/closedir abandoned after j batches, cancelled requests) with uv-allocator blocks, "
                                           "process heap bytes and descriptor count all back to the pre-request value")
    # request life cycle against UvModel.FsReq: allocation ledger by role after every observable event (harness/c11_reqlife.c)
    lexe = ctx.harness("c11_reqlife", ["harness/c11_reqlife.c"], link_lib=True)
    if lexe and ok:
        ok = run_reqlife(ctx, lexe, req_cases(ctx.tier == "thorough", rng))
        ctx.sample({"reqlife_case": "case scandir-d cb=1 ring=0 cancel=0 fallback=0 oom=0 nexts=2 cleanups=2"})
    # forced -EOPNOTSUPP completion (fallback of uv__poll_io_uring to the thread pool): same lines as unforced, no leak
    fexe = ctx.harness("c11_fallback", ["harness/c11_fallback.c"], link_lib=True) if not ctx.replay else None
    if fexe:
        outs = {}
        for f in (0, 1):
            d = ctx.tmp / f"fb{f}"; d.mkdir()
            rc, out, err = ctx.run(fexe, [d, f], env={"UV_USE_IO_URING": "1"}, timeout=120)
            outs[f] = (rc, [l for l in out.splitlines() if not l.startswith("forced ")], err)
            ctx.count()
        if outs[0][1][:1] == ["ROUTE-SKIPPED"]:
            ctx.notes["uring_fallback_probe"] = "skipped: no SQPOLL ring"
        else:
            rc1, l1, e1 = outs[1]
            ctx.notes["uring_fallback_probe"] = f"{len(l1) - 1} idempotent ops completed with a forced -EOPNOTSUPP CQE and re-run in the thread pool"
            if outs[0][0] != 0:
                ctx.violation("uring-probe-unforced-crash", f"C11 fallback probe (unforced) exited {outs[0][0]}: {outs[0][2][-500:]}", {"mode": "fallback", "force": 0})
            elif rc1 != 0 and "uv__iou_fs_statx" in e1 and "leak" in e1:
                ctx.violation("uring-eopnotsupp-stat-fallback-leak",
                              "C11: a stat/lstat/fstat whose io_uring completion is -EOPNOTSUPP is re-posted to the thread pool with req->ptr still "
                              "holding the malloc'd statx buffer; uv__fs_work overwrites req->ptr on success -> buffer leaked (LeakSanitizer: "
                              f"{e1.count('Direct leak')} x 256 bytes from uv__iou_fs_statx); on failure the callback sees a non-NULL req->ptr",
                              {"mode": "fallback", "force": 1})
            elif rc1 != 0:
                ctx.violation("uring-eopnotsupp-fallback-crash", f"C11 fallback probe exited {rc1}: {e1[-600:]}", {"mode": "fallback", "force": 1})
            elif any(("-missing" in l or "-badfd" in l) and not l.endswith("ptr=null") for l in l1):
                bad = next(l for l in l1 if ("-missing" in l or "-badfd" in l) and not l.endswith("ptr=null"))
                ctx.violation("uring-eopnotsupp-stat-fallback-stale-ptr",
                              f"C11: failing stat completed through the -EOPNOTSUPP fallback: req->ptr must be NULL in the callback: `{bad}`",
                              {"mode": "fallback", "force": 1})
            elif l1 != outs[0][1]:
                k = next((i for i in range(min(len(l1), len(outs[0][1]))) if l1[i] != outs[0][1][i]), 0)
                ctx.violation("uring-eopnotsupp-fallback-differs", f"C11: forced -EOPNOTSUPP fallback: `{l1[k]}` vs unforced `{outs[0][1][k]}`",
                              {"mode": "fallback", "force": 1})
            else:
                ctx.validated()
    if (ctx.broken or not proofs_ok) and not ctx.violations and uexe:
        ctx.log("obligation broken; searching for a failing input with the monitors")
        srng = SplitMix(ctx.seed + 4242)
        nb = 0
        for _ in range(20):
            b = unit_batches(srng, ctx.scale(2400, 6000))
            nb += sum(len(c) for _, c in b)
            if not run_unit(ctx, uexe, b, "search", monitors_only=True) or ctx.violations:
                break
        ctx.notes["search"] = f"{nb} extra unit cases run against the monitors after an obligation broke"
        if lexe and not ctx.violations:
            allc = req_cases(True, srng)
            run_reqlife(ctx, lexe, allc, monitors_only=True)
            ctx.notes["search"] += f"; {len(allc)} request life cycles (full product) against the life-cycle monitors"
    ctx.cov["rule"] = ("unit: write_all/read/buf_offset/work lines — buffer counts 1..5 and IOV_MAX-1..2*IOV_MAX+3 (IOV_MAX 1024 and, via a "
                       "uv__getiovmax shim, 2..16), zero-length buffers and zero runs >= IOV_MAX in front/middle/end, kernel answers: all, 1 "
                       "byte, cut at a buffer boundary, cut inside a buffer, 0, EINTR runs, errors at any position, script exhaustion; "
                       "non-trivial = write_all with >= 2 calls or a successful read, distinct by call trace. routes: random programs over "
                       "a 13-name space incl. missing / wrong-type / existing targets; non-trivial = >= 1 failing op and >= 1 multi-buffer "
                       "transfer, distinct by result log")
