"""C02 — close protocol.  Proof: UvModel.Props.C02 over the LoopModel.  Tie B and monitors: see checks/loopsim.py
(per-handle lifecycle automaton on the implementation log; handles and requests are individual heap blocks freed in
their last callback, so ASan sees any later touch)."""
from vlib import *
import loopsim

MANIFEST = {
 "text": "Lean 4 theorems over the executable LoopModel: the `close` operation emits no callback event for any handle kind "
         "and state; uv__run_closing_handles delivers exactly one close callback per handle queued before it started (handles "
         "closed from a close callback wait for the next iteration); requests in flight on a udp handle get their callback "
         "(UV_ECANCELED if not yet sent) before the close callback; after the close callback the handle's record no longer exists "
         "in the model and no later event mentions it.  The as-first-written statements were too weak (false, with Lean witnesses); the corrected theorems close_cb_exactly_once (invariant CloseWF in every reachable state), reqs_before_close_cb, silence_after_close_cb, req_cb_at_most_once and closing_handle_frozen are proved for every script and program.  Tied to the working tree by the loop simulator (real library, virtual "
         "clock, deterministic poller; closes issued from main, from the handle's own callback and from sibling callbacks in the "
         "same phase / same epoll batch) with a line-by-line diff against the model, a lifecycle monitor on the implementation "
         "log, and ASan on individually allocated handles/requests freed in their final callback.",
 "note": "Trusted: Lean kernel, simulator interposition, clang sanitizers. Modelled handle kinds: timer, idle, prepare, check, "
         "async, poll, tcp (listening), udp (recv + queued sends), pipe (listening), signal (no signal raised), fs_event (no "
         "events). Stream write/connect/shutdown cancellation, fs_poll and signal deferral are covered by C05-C07, C13, C17; "
         "`resources_released` (fd/epoll/inotify ledger) by C14/C15 — here only the fd-table digest after uv_loop_close.",
 "design": "DESIGN.md §3 C02",
}

def run(ctx):
    loopsim.drive(ctx, "C02", ["UvModel.Props.C02"], ["C02", "C02", "C02", "C01"], 900, 12000)
