"""C06 — stream reads (src/unix/stream.c read side, uv_read_start checks, epoll event merge).
Proof: UvModel.Props.C06 over the model UvModel.StreamR.  Tie B: the real library reads from a real
socketpair / TCP connection / IPC pipe whose other end is written raw by harness/c06_sim.c; read,
recvmsg and epoll_pwait are interposed (scripted EAGAIN/EINTR/short reads/errors; every outcome and
every epoll event for the descriptor is logged).  The logged environment plus the program is fed to
`uvdriver c06`, every callback / return-code line is diffed.  Monitors evaluate the property text on
the implementation's log alone."""
import zlib
from vlib import *

MANIFEST = {
 "text": "Lean 4 theorems over an executable model of uv__read / uv__stream_eof / uv__stream_io (read part) / "
         "uv_read_start / uv_read_stop / uv_close and the epoll event filter+merge of uv__io_poll, for all peer write "
         "patterns, all alloc_cb size/refusal sequences, all read_cb scripts (stop/start/close inside the callback), all "
         "read(2) outcome schedules (short reads, EAGAIN, EINTR, errors) and all epoll event sequences: delivered bytes are "
         "an in-order prefix of what the peer wrote and all of it at a read-0 EOF; every alloc_cb is followed by exactly one "
         "read_cb with that buffer; no callback after UV_EOF / read error / uv_read_stop until uv_read_start succeeds; at most "
         "32 alloc/read rounds per wakeup; while UV_HANDLE_READING is set the watcher stays armed for POLLIN with read_cb set, and a refused "
         "alloc_cb (UV_ENOBUFS) whose read_cb keeps the stream open leaves it reading (reading ends only on UV_EOF, a read error, "
         "uv_read_stop or uv_close; checked on the real library by draining the loop); the synthetic EOF on POLLHUP never loses data on IPC pipes (no kernel assumption) and on other streams when short "
         "reads imply a drained socket (and DOES lose data otherwise: negation proved; that was the IPC data-loss defect, now fixed). The model "
         "is tied to the working tree by running the real library on real sockets and diffing every line, plus independent monitors.",
 "note": "Trusted: Lean kernel; kernel read semantics built into the model's `kread` (bytes from the head of the receive "
         "buffer, 0 only when empty and peer shut down) - re-checked on every run because the logged outcomes must be "
         "consumed exactly; the interposition harness; clang/ASan. Not modelled: the write half of uv__stream_io (C05), "
         "descriptor queueing of IPC pipes (C07), ops inside alloc_cb, tty, macOS select fallback.",
 "design": "DESIGN.md §3 C06",
 "technique": "Lean 4 proof over executable model + correspondence (whole-library syscall interposition on real sockets) + monitors",
}

EOF, ENOBUFS = -4095, -105
SIG_IPC = "ipc-hup-short-read-eof-data-lost"


def pat(p):
    return (p * 7 + 3) % 251


PAT = bytes(pat(p) for p in range(251))


# ----------------------------------------------------------------------------- generation
def gen_allocs(rng):
    style = rng.below(7)
    n = rng.range(0, 24)
    out = []
    if style == 0:
        return ["1"] * rng.range(30, 80)
    if style == 1:
        k = rng.range(1, 4)
        out = [str(k)] * rng.range(10, 60)
        # a refusal in the middle of a wakeup (after reads that filled their buffers), every refusal style
        for _ in range(rng.below(3)):
            out[rng.below(len(out))] = rng.choice(["0", "u", "u", "z", "b5"])
        return out
    for _ in range(n):
        r = rng.below(24)
        if r == 0: out.append(rng.choice(["0", "u", "u"]))
        elif r == 1: out.append(rng.choice(["z", "b7"]))
        elif r < 4: out.append("65536")
        elif r < 7: out.append(str(rng.range(9, 64)))
        else: out.append(str(rng.choice([1, 1, 2, 2, 3, 4, 5, 6, 7, 8])))
    return out


def gen_env(rng):
    style = rng.below(5)
    if style == 0:
        return []
    out = []
    for _ in range(rng.range(1, 30)):
        r = rng.below(20)
        if style == 1 and r < 6: out.append("e4")
        elif r < 2: out.append("e11")
        elif r < 4: out.append("e4")
        elif r < 7: out.append("k" + str(rng.range(1, 6)))
        elif r == 7 and rng.chance(1, 3): out.append("e" + str(rng.choice([104, 110, 5])))
        else: out.append("n")
    return out


BIGBUF = ["65535", "65536", "65537", "131072", "262144", "1048576"]
BIGW = [32768, 65535, 65536, 65537, 70000, 131072, 140000, 200000, 300000]


def gen_big_case(rng):
    """buffer-size axis (64K-1, 64K, 64K+1, 128K, 256K, 1M, with a few tiny/default ones) x amount queued in the kernel
    (around and well above 64 KiB) x hang-up / half-close / open peer, with stop/start in callbacks"""
    kind = rng.choice(["pipe", "pipe", "tcp", "ipc"])
    case = ["open " + kind]
    al = [rng.choice(BIGBUF + BIGBUF + ["1", "4096", "0", "u"]) if rng.chance(7, 8) else "65536" for _ in range(rng.range(0, 8))]
    if rng.chance(1, 2):
        al = [rng.choice(BIGBUF[3:])] * rng.range(1, 6)
    if al:
        case.append("allocs " + " ".join(al))
    if rng.chance(1, 3):
        case.append("env " + " ".join(rng.choice(["n", "n", "e4", "e11", "k60000", "k65536", "k100000"]) for _ in range(rng.range(1, 6))))
    if rng.chance(1, 3):
        case.append(f"script {rng.below(3)} " + rng.choice(["stop start", "stop", "start"]))
    case.append("start")
    for _ in range(rng.range(1, 3)):
        case.append(f"peer w {rng.choice(BIGW)}")
        if kind == "ipc" and rng.chance(1, 3): case.append(f"peer fd {rng.range(1, 9)}")
        if rng.chance(1, 3): case.append("run")
    case.append(rng.choice(["peer close", "peer close", "peer shut", "run"]))
    case += ["run"] * rng.range(2, 5)
    if rng.chance(3, 4):
        case.append("drain")
    case.append("end")
    return case


def gen_refusing_allocs(rng):
    """alloc_cb that refuses (every refusal style) early and repeatedly, between small and default-size buffers: the
    refusals land while bytes are still queued in the kernel"""
    out = []
    for _ in range(rng.range(2, 30)):
        r = rng.below(10)
        if r < 3: out.append(rng.choice(["0", "u", "z", "b5", "b65536"]))
        elif r < 8: out.append(str(rng.choice([1, 2, 3, 5, 8, 64])))
        else: out.append("65536")
    out[rng.below(min(len(out), 4))] = rng.choice(["0", "u", "z", "b9"])
    return out


def gen_case(rng, nsteps, bias=None):
    if bias == "big" or (bias is None and rng.chance(1, 12)):
        return gen_big_case(rng)
    if bias is None and rng.chance(1, 10):
        bias = "keepopen"
    kind = rng.choice(["pipe", "pipe", "tcp", "ipc", "ipc"])
    if bias == "ipc":
        kind = "ipc"
    case = ["open " + kind]
    # "keepopen": a reader that treats UV_ENOBUFS / nread 0 as "skip this round" - never closes, rarely stops - under an
    # allocator that refuses now and then; the stream must still deliver every byte and the terminal UV_EOF / error
    al = gen_refusing_allocs(rng) if bias == "keepopen" else gen_allocs(rng)
    if al:
        case.append("allocs " + " ".join(al))
    ev = gen_env(rng)
    if ev:
        case.append("env " + " ".join(ev))
    for k in sorted(set(rng.below(24) for _ in range(rng.below(6)))):
        ops = rng.choice([["stop"], ["stop", "start"], ["stop", "start"], ["start"], ["close"], ["stop", "start", "stop"],
                          ["stop", "stop"], ["close", "start"], ["stop", "close"]])
        if bias in ("noclose", "keepopen"):
            ops = [o for o in ops if o != "close"] or ["stop"]
        if bias == "keepopen" and ops[-1] == "stop":
            ops = ops + ["start"]
        case.append(f"script {k} " + " ".join(ops))
    if rng.chance(9, 10):
        case.append("start")
    for _ in range(nsteps):
        r = rng.below(40)
        if r < 12: case.append(f"peer w {rng.choice([1, 2, 3, 5, 8, 13, 20, 33, 40, 70])}")
        elif r < 15 and kind == "ipc": case.append(f"peer fd {rng.range(1, 12)}")
        elif r < 26: case.append("run")
        elif r < 28: case.append(f"runx {rng.choice([1, 16, 17, 8192, 1])} {rng.choice([0, 0, 1, 8, 9])}")
        elif r < 30: case.append("run" if bias == "keepopen" and rng.chance(2, 3) else "stop")
        elif r < 33: case.append("start")
        elif r < 35: case.append("peer shut")
        elif r < 37: case.append("peer close")
        elif r == 37 and bias not in ("noclose", "keepopen"): case.append("close")
        elif r == 38 and rng.chance(1, 2): case.append("wbig")
        elif r == 39 and rng.chance(1, 2): case.append("drain")
        else: case.append("run")
    if rng.chance(1, 2):
        case.append(rng.choice(["peer close", "peer shut"]))
    case += ["run"] * rng.range(1, 4)
    if rng.chance(1, 4) or bias == "afterlife":
        # life of the stream after UV_EOF / a read error / uv_read_stop with the handle kept open: a queued write keeps
        # the watcher armed for POLLOUT, then the peer closes fully and epoll reports HUP/ERR/OUT again
        case.append(rng.choice(["peer shut", "peer shut", "stop", "peer w 3"]))
        case += ["run"] * rng.range(1, 2)
        if rng.chance(1, 3): case.append("stop")
        if rng.chance(3, 4): case.append("wbig")
        case += ["run"] * rng.range(0, 1)
        case.append("peer close")
        case += ["run"] * rng.range(1, 3)
        if rng.chance(1, 3): case += ["start", "run"]
    # liveness: run the loop until the stream makes no more progress; whatever reading is still active by then must have
    # delivered every byte the peer wrote and, if the peer is gone, the terminal UV_EOF / read error
    if bias == "keepopen" or rng.chance(3, 4):
        case.append("drain")
    if kind == "tcp":
        # TCP: a full close with a large write in flight (either order) makes the kernel answer RST, which discards data
        # still queued towards the stream - not bytes the descriptor ever receives.  Half-close instead (the harness
        # enforces the same rule); the wbig + full close after-life class runs on Unix-socket streams.
        wb = pc = False
        for i, c in enumerate(case):
            if c == "wbig":
                if pc: case[i] = "run"
                else: wb = True
            elif c == "peer close":
                if wb: case[i] = "peer shut"
                else: pc = True
    case.append("end")
    return case


# ----------------------------------------------------------------------------- monitors (implementation log only)
class Bad(Exception):
    def __init__(self, sig, what):
        super().__init__(what)
        self.sig, self.what = sig, what


def monitor(case, out):
    """the property text evaluated on what the real code did; returns statistics"""
    kind = case[0].split()[1]
    sent = delivered = 0
    fdmsgs = 0
    pending = None          # (id, size) of the alloc_cb whose buffer has not come back yet
    quiet = True            # no callback allowed: before the first read_start, after EOF / error / read_stop / close
    why = "uv_read_start was never called"
    allocs_in_run = 0
    closing = closed = False
    st = {"short": 0, "eagain": 0, "eintr": 0, "err": 0, "eof_read0": 0, "eof_synth": 0, "enobufs": 0, "cb_ops": 0,
          "cap32": 0, "reads": 0, "bare": 0, "restart_after_eof": 0, "fdmsgs": 0, "events_while_quiet": 0,
          "events_while_quiet_pollout_armed": 0, "wbig": 0, "reads_cap_gt_64k": 0, "read_cap_lt_buffer": 0, "reads_ge_64k_bytes": 0,
          "drains": 0, "drain_capped": 0, "drain_while_reading": 0, "drain_reading_after_enobufs": 0, "drain_reading_after_nread0": 0,
          "drain_reading_peer_open": 0, "drain_runs": 0}
    in_cb = False
    i = 0
    starts_ok = 0           # successful uv_read_start calls so far: the harness registers callback pair (starts_ok - 1) % 4
    eof_seen = False
    reset_seen = False      # a read error (ECONNRESET, EPIPE, ...) ends the delivery obligation
    peer_done = False       # the peer half-closed or closed: the stream has an end that must be reported
    since_start = {"enobufs": 0, "zero": 0, "eagain": 0, "short": 0}   # what happened since the latest successful uv_read_start
    while i < len(out):
        l = out[i]; w = l.split(); i += 1
        if l.startswith("#harness-env-failure"):
            raise Bad("harness-env-failure", l)
        if l == "bad-op":
            raise Bad("harness-bad-op", "harness rejected an op")
        if w[0] == "#drained":
            # liveness half of the property: reading stops only on UV_EOF, a read error, uv_read_stop() or uv_close().  The
            # loop was run until the stream made no progress in two consecutive iterations; if reading is still active
            # (uv_read_start succeeded and none of those four happened since), nothing the peer wrote may be left
            # undelivered and a finished peer must have been reported.
            st["drains"] += 1; st["drain_runs"] += int(w[1])
            if w[2] != "capped=0":
                st["drain_capped"] += 1
            elif not quiet and not closing:
                st["drain_while_reading"] += 1
                if since_start["enobufs"]: st["drain_reading_after_enobufs"] += 1
                if since_start["zero"]: st["drain_reading_after_nread0"] += 1
                after = ", ".join(f"{v}x {k}" for k, v in (("UV_ENOBUFS", since_start["enobufs"]), ("nread 0", since_start["zero"]),
                                                            ("short read", since_start["short"])) if v) or "plain reads"
                if delivered != sent and not reset_seen:
                    raise Bad("reading-stopped-without-eof-error-stop", f"uv_read_start succeeded and neither UV_EOF, a read error, "
                              f"uv_read_stop nor uv_close happened since ({after}), the loop ran until idle, yet only {delivered} of the "
                              f"{sent} bytes the peer wrote were delivered")
                if peer_done:
                    raise Bad("eof-never-delivered", f"the peer {'closed' if peer_done == 2 else 'half-closed'}, reading is active "
                              f"(no UV_EOF / read error / uv_read_stop / uv_close since uv_read_start; {after}), the loop ran until idle, "
                              f"yet neither UV_EOF nor a read error was reported ({delivered} of {sent} bytes delivered)")
                st["drain_reading_peer_open"] += 1
            continue
        if l.startswith("#"):
            continue
        if w[0] == "op":
            in_cb = False
            if w[1] == "peer" and w[2] in ("w", "fd"):
                if not (i < len(out) and out[i] == "#ignored"):
                    sent += int(w[3])
                    if w[2] == "fd": fdmsgs += 1; st["fdmsgs"] += 1
            elif w[1] == "peer" and w[2] in ("shut", "close"):
                peer_done = max(peer_done, 2 if w[2] == "close" else 1)
            elif w[1] == "run":
                allocs_in_run = 0
            elif w[1] == "wbig":
                st["wbig"] += 1
        elif w[0] == "env" and w[1] == "poll":
            if int(w[2]) & 0x19 in (8, 16): st["bare"] += 1
            if quiet and int(w[2]) & 0x1d:
                st["events_while_quiet"] += 1
                if int(w[2]) & 65536: st["events_while_quiet_pollout_armed"] += 1
        elif w[0] == "env" and w[1] == "read":
            cap = int(w[2][4:]); r = int(w[4]); st["reads"] += 1
            if pending is None:
                raise Bad("read-without-alloc", f"read(2) on the stream without a buffer from alloc_cb: {l}")
            if cap > pending[1]:
                raise Bad("read-cap-ne-buffer-len", f"read(2) was given length {cap} for a buffer of {pending[1]} bytes")
            if cap < pending[1]:
                st["read_cap_lt_buffer"] += 1      # allowed by the property (it only must not lose data because of it)
            if cap > 65536: st["reads_cap_gt_64k"] += 1
            if r >= 65536: st["reads_ge_64k_bytes"] += 1
            if r == -11: st["eagain"] += 1
            elif r == -4: st["eintr"] += 1
            elif r < 0: st["err"] += 1
        elif w[0] == "cb" and w[1] == "alloc":
            if quiet:
                raise Bad("callback-while-quiet", f"alloc_cb although {why} (line {i}: {l})")
            if pending is not None:
                raise Bad("alloc-unpaired", f"alloc_cb #{w[2]} while the buffer of alloc_cb #{pending[0]} was never handed to read_cb")
            pending = (w[2], int(w[3]))
            if w[4] != f"g={(starts_ok - 1) % 4}":
                raise Bad("stale-callback-invoked", f"alloc_cb of callback pair {w[4]} was invoked, the latest successful uv_read_start "
                          f"registered pair {(starts_ok - 1) % 4}")
            allocs_in_run += 1
            if allocs_in_run == 32: st["cap32"] += 1
            if allocs_in_run > 32:
                raise Bad("more-than-32-rounds", "more than 32 alloc/read rounds in one loop iteration")
        elif w[0] == "cb" and w[1] == "read":
            n = int(w[2]); b = w[3][4:]; in_cb = True
            if w[5] != f"g={(starts_ok - 1) % 4}" and not quiet:
                raise Bad("stale-callback-invoked", f"read_cb of callback pair {w[5]} was invoked, the latest successful uv_read_start "
                          f"registered pair {(starts_ok - 1) % 4}")
            if quiet:
                raise Bad("callback-while-quiet", f"read_cb({n}) although {why} (line {i}: {l})")
            if b == "-":
                if pending is not None:
                    raise Bad("alloc-unpaired", f"read_cb without the buffer of alloc_cb #{pending[0]}")
                if n != EOF:
                    raise Bad("readcb-null-buffer", f"read_cb({n}) with an empty buffer that is not UV_EOF")
                st["eof_synth"] += 1
            else:
                if pending is None or b != pending[0]:
                    raise Bad("alloc-unpaired", f"read_cb carries buffer `{b}`, outstanding alloc is {pending}")
                size = pending[1]; pending = None
                if n > size:
                    raise Bad("nread-gt-buffer", f"nread {n} > buffer length {size}")
                if (n == ENOBUFS) != (size == 0):
                    raise Bad("enobufs-mismatch", f"nread {n} for a buffer of length {size}")
            if n > 0:
                exp = (PAT * (n // 251 + 2))[delivered % 251: delivered % 251 + n]
                if ":" in w[4]:
                    bad = w[4] != f"{n}:{zlib.adler32(exp):08x}"
                else:
                    bad = bytes.fromhex(w[4]) != exp
                if bad:
                    raise Bad("data-not-in-order-prefix", f"read_cb delivered bytes that are not the next {n} bytes of the peer's stream "
                              f"(stream offset {delivered})")
                if delivered + n > sent:
                    raise Bad("data-not-in-order-prefix", "delivered more than the peer wrote")
                if n < size: st["short"] += 1; since_start["short"] += 1
                delivered += n
            if n == 0: since_start["zero"] += 1
            if n == EOF:
                if b != "-": st["eof_read0"] += 1
                if delivered != sent and not reset_seen:
                    if kind == "ipc" and fdmsgs and b == "-":
                        raise Bad(SIG_IPC, f"IPC pipe: UV_EOF reported on POLLHUP after a short read at a descriptor-message boundary; "
                                           f"{sent - delivered} of {sent} bytes the peer wrote were never delivered")
                    raise Bad("eof-before-all-data", f"UV_EOF after {delivered} of {sent} bytes")
                if eof_seen: st["restart_after_eof"] += 1
                eof_seen = True
                quiet, why = True, "UV_EOF was reported and uv_read_start not called since"
            elif n == ENOBUFS:
                st["enobufs"] += 1; since_start["enobufs"] += 1
            elif n in (-4, -11):
                # EINTR / EAGAIN of read(2)/recvmsg(2) are in the property's quantifier as conditions under which the
                # stream must still be exact: surfacing them as a read error ends the stream and strands the rest
                raise Bad("transient-errno-reported-as-read-error", f"read_cb({n}): a transient {'EINTR' if n == -4 else 'EAGAIN'} from "
                          f"{'recvmsg' if kind == 'ipc' else 'read'} was reported as a read error ({sent - delivered} bytes undelivered)")
            elif n < 0:
                reset_seen = True
                quiet, why = True, f"a read error ({n}) was reported and uv_read_start not called since"
        elif w[0] == "ret":
            rc = int(w[2])
            if in_cb: st["cb_ops"] += 1
            if w[1] == "stop":
                if rc != 0: raise Bad("read-stop-rc", f"uv_read_stop returned {rc}")
                if not quiet: quiet, why = True, "uv_read_stop was called and uv_read_start not called since"
            elif w[1] == "start":
                if rc == 0:
                    if closing: raise Bad("start-on-closing", "uv_read_start succeeded on a closing handle")
                    if quiet: since_start = dict.fromkeys(since_start, 0)
                    quiet = False
                    starts_ok += 1
            elif w[1] == "close":
                if rc == 0:
                    closing = True
                    quiet, why = True, "uv_close was called"
        elif w[0] == "cb" and w[1] == "close":
            if not closing or closed:
                raise Bad("close-cb", "close_cb without uv_close or twice")
            closed = True
        elif l == "opened":
            pass
        else:
            raise Bad("harness-unknown-line", l)
    if pending is not None:
        raise Bad("alloc-unpaired", f"the buffer of alloc_cb #{pending[0]} was never handed to read_cb")
    o = next((l for l in out if l.startswith("#outstanding")), None)
    if o is None or o.split()[1] != "0":
        raise Bad("alloc-unpaired", f"buffers never handed back: {o}")
    st["delivered"], st["sent"] = delivered, sent
    return st


# ----------------------------------------------------------------------------- running
def run_impl(ctx, exe, case):
    rc, out, err = ctx.run(exe, text="\n".join(case) + "\n", timeout=20, env={"ASAN_OPTIONS": "detect_leaks=0:exitcode=99"})
    return rc, out.splitlines(), err


def model_input(case, il):
    """program header from the case + ops with the environment the harness logged attached"""
    mi = []
    for c in case:
        if c.startswith("open ") or c.startswith("script "):
            mi.append(c)
        elif c.startswith("allocs "):
            mi.append(" ".join("0" if t[0] in "zub" else t for t in c.split()))
    cur = None
    for l in il:
        w = l.split()
        if w and w[0] == "op":
            if cur: mi.append(" ".join(cur))
            cur = None
            if w[1] == "run": cur = ["run", "0"]
            else: mi.append(" ".join(w[1:]))
        elif w and w[0] == "env" and cur:
            if w[1] == "poll": cur[1] = w[2]
            elif w[1] == "read": cur.append(w[4])
    if cur: mi.append(" ".join(cur))
    return mi


def check_case(ctx, exe, case):
    """returns (statistics or Bad, impl lines)"""
    rc, il, err = run_impl(ctx, exe, case)
    if rc not in (0, 3):
        return Bad("harness-crash", f"harness exited {rc}: {err[-700:]}"), il
    try:
        info = monitor(case, il)
    except Bad as b:
        return b, il
    if rc != 0:
        return Bad("harness-crash", f"harness exited {rc}: {err[-300:]}"), il
    return info, il


def shrink(ctx, exe, case, sig):
    cur = list(case)
    i = 1
    t0 = time.time()
    while i < len(cur) - 1 and time.time() - t0 < 45:
        cand = cur[:i] + cur[i + 1:]
        r, _ = check_case(ctx, exe, cand)
        if isinstance(r, Bad) and r.sig == sig:
            cur = cand
        else:
            i += 1
    return cur


def run_sim(ctx, exe, cases, label):
    with ThreadPoolExecutor(NCPU) as ex:
        res = list(ex.map(lambda c: check_case(ctx, exe, c), cases))
    mtext = "".join("\n".join(model_input(c, il)) + "\n" for c, (r, il) in zip(cases, res))
    ml = ctx.driver(["c06"], mtext).splitlines()
    chunks, cur = [], None
    for l in ml:
        if l == "opened":
            cur = []; chunks.append(cur)
        if cur is not None:
            cur.append(l)
    ok = True
    h = ctx.notes.setdefault("hist", {})
    for idx, (c, (r, il)) in enumerate(zip(cases, res)):
        ctx.count()
        if isinstance(r, Bad):
            if r.sig in ctx.known:
                ctx.violation(r.sig, r.what, {"mode": "sim", "ops": c})
                ctx.notes["known_finding_cases"] = ctx.notes.get("known_finding_cases", 0) + 1
            else:
                small = shrink(ctx, exe, c, r.sig)
                if ctx.violation(r.sig, f"C06 ({label}): {r.what}", {"mode": "sim", "ops": small}):
                    ok = False
                    continue
        iv = [l for l in il if not l.startswith("#") and not l.startswith("env ")]
        mv = chunks[idx] if idx < len(chunks) else []
        if iv != mv:
            k = next((i for i in range(min(len(iv), len(mv))) if iv[i] != mv[i]), min(len(iv), len(mv)))
            ctx.broken_correspondence("stream read model vs src/unix/stream.c",
                                      f"line {k}: impl `{iv[k] if k < len(iv) else None}` model `{mv[k] if k < len(mv) else None}`; case {c}")
            ctx.notes.setdefault("diff_cases", []).append(c)
            return False
        ctx.validated()
        if not isinstance(r, Bad):
            for k_, v in r.items():
                if k_ not in ("delivered", "sent"):
                    h[k_] = h.get(k_, 0) + v
            h["bytes_delivered"] = h.get("bytes_delivered", 0) + r["delivered"]
            h["kind:" + c[0].split()[1]] = h.get("kind:" + c[0].split()[1], 0) + 1
            if r["short"] or r["eagain"] or r["eintr"]:
                shape = " ".join(x.split()[0] for x in c if not x.startswith(("allocs", "env")))
                envs = "|".join(l for l in il if l.startswith("env "))
                ctx.nontrivial("S" + hashlib.sha1((shape + "|" + envs).encode()).hexdigest()[:12])
    return ok


def run(ctx):
    ctx.trusted += ["interposition harness harness/c06_sim.c: read/recvmsg/epoll_pwait for the stream's descriptor defined in the "
                    "harness (short reads performed with the real syscall on a truncated length)", "clang/ASan/UBSan",
                    "byte identity: payload byte = f(stream position) (251-periodic pattern, stride 7)",
                    "kernel read semantics as encoded in StreamR.kread (checked against every logged outcome)"]
    ctx.assumptions += ["no uv_read_start/uv_read_stop/uv_close inside alloc_cb (uv_read_stop there makes uv__read call a NULL read_cb)",
                        "write side idle (nothing queued, no shutdown request); handle opened with uv_pipe_open/uv_tcp_open"]
    ctx.notes["lead_not_generated"] = ("non-IPC uv_pipe_t on a unix socket whose peer sends a descriptor-carrying message, more data, then closes: "
                                       "read(2) stops at the message boundary, READ_PARTIAL is set, POLLHUP -> synthetic UV_EOF, trailing data "
                                       "never delivered (reproducer corpus/C06/pipe-nonipc-fd-msg-hup.lead; `peer fd` is generated for IPC pipes only)")
    ctx.trusted += ["tools/gen_lean.py (clang AST -> Lean for the loop-free kernels read_start_api, read_start_body, read_stop) and UvModel/CSem.lean"]
    # Tie A: uv_read_start / uv__read_start / uv_read_stop regenerated from /repo, GenEq/C06 re-proves them = StreamR.readStart / readStop
    # (a failing translation is recorded in ctx.broken by gen_lean itself)
    ctx.gen_lean(need=["C06"])
    ctx.require_lean(["UvModel.GenEq.C06", "UvModel.Props.C06", "UvModel.Props.C06Live"])
    exe = ctx.harness("c06_sim", ["harness/c06_sim.c"], link_lib=True)
    if exe is None:
        return
    if ctx.replay:
        rp = json.loads(Path(ctx.replay).read_text())["replay"]
        run_sim(ctx, exe, [rp["ops"]], "replay")
        return
    rng = ctx.rng
    cdir = VERIF / "corpus" / "C06"
    ccases = [[l for l in p.read_text().splitlines() if l.strip()] for p in sorted(cdir.glob("*.txt"))] if cdir.exists() else []
    if ccases:
        run_sim(ctx, exe, ccases, "corpus")
    total = ctx.scale(1500, 40000)
    done = 0
    while done < total and not ctx.violations and not any(k == "correspondence" for k, _, _ in ctx.broken):
        cases = [gen_case(rng, rng.range(3, ctx.scale(16, 40))) for _ in range(min(300, total - done))]
        if done == 0:
            ctx.sample({"program": cases[0]})
        run_sim(ctx, exe, cases, "random")
        done += len(cases)
    if ctx.broken and not ctx.violations:
        ctx.log("obligation broken; searching for a failing input with the monitors")
        srng = SplitMix(ctx.seed + 4242)
        n = 0
        diff = ctx.notes.get("diff_cases", [])
        bias = "ipc" if any(c[0] == "open ipc" for c in diff) else None
        for rnd in range(ctx.scale(100, 300)):
            cases = [gen_case(srng, srng.range(3, 40), [None, bias, "keepopen", bias][rnd % 4]) for _ in range(300)]
            with ThreadPoolExecutor(NCPU) as ex:
                res = list(ex.map(lambda c: check_case(ctx, exe, c), cases))
            n += len(cases)
            for c, (r, il) in zip(cases, res):
                if isinstance(r, Bad) and r.sig not in ctx.known:
                    ctx.violation(r.sig, f"C06 (search): {r.what}", {"mode": "sim", "ops": shrink(ctx, exe, c, r.sig)})
                    break
            if ctx.violations:
                break
        ctx.notes["search"] = f"{n} extra programs run against the monitors after an obligation broke"
    ctx.cov["rule"] = ("random programs: stream kind (pipe/tcp/ipc) x alloc_cb size/refusal list x read/recvmsg injection schedule x read_cb "
                       "scripts (stop/start/close) x main ops (peer write / fd message / half-close / close, run, edited epoll events, "
                       "stop/start/close, drain = run until the stream is idle); non-trivial = >=1 short read, EAGAIN or EINTR; distinct by (op shape, logged environment)")
