"""C07 — connect / accept / IPC handle passing (src/unix/stream.c, tcp.c, pipe.c).
Proof: UvModel.Props.C07 (+C07Connect).  Tie B: (1) unit harness driving the real uv__server_io /
uv_accept / uv__stream_queue_fd / uv__stream_recv_cmsg / uv__stream_close with fake descriptors,
state dumped after every op and diffed with `uvdriver accept`; (2) whole-library simulator
(harness/c07_sim.c) with real TCP v4/v6 and Unix sockets, interposed accept4, an in-process IPC
pipe pair, connect error paths and the uv_write2/uv_try_write2 refusal table.  Monitors evaluate
the property text on what the implementation did, independently of the model."""
from vlib import *

MANIFEST = {
 "text": "Lean 4 theorems over the model of uv__server_io/uv_accept/uv__stream_queue_fd/uv__stream_recv_cmsg/"
         "uv__stream_close (descriptor conservation as multisets, FIFO, EAGAIN iff nothing pending, POLLIN pause/re-arm, "
         "pending_count exact, 8-slot growth and memmove index bounds), of uv__tcp_connect/uv_pipe_connect2/"
         "uv__stream_connect/uv__stream_destroy (connect callback exactly once, status) and of uv__check_before_write "
         "(send-handle refusal for uv_write2 and uv_try_write2) and of the uv_write2 queue + uv__write attempts (the descriptor "
         "rides on exactly one successful syscall of its request, whatever the short transfers); tied to the working tree by running model and "
         "implementation on the same op sequences (unit harness with fake descriptors; real sockets in the simulator) "
         "and by monitors that evaluate the property text on the implementation's log.",
 "note": "Trusted: Lean kernel; the flattening of connection_cb into ioBegin/ops/ioEnd; accept4 interposition; "
         "uv__close redirected by macro in the unit harness; kernel behaviour of SCM_RIGHTS / SO_ERROR is an input. "
         "Not modelled here: the end-of-stream decision of uv__read/uv__stream_io on IPC pipes (READ_PARTIAL x POLLHUP; that code is "
         "UvModel.StreamR, C06) - a sender that hangs up with handle-bearing messages unread is covered by the simulator's "
         "ipchup scenarios and judged by a monitor (every handle of a completed uv_write2 arrives before end-of-stream), the "
         "arrivals/claims are replayed through the fd-queue model; macOS select fallback, Cygwin ENOSYS branch.",
 "design": "DESIGN.md §3 C07",
 "technique": "Lean 4 proof over executable model + correspondence (unit-include harness, whole-library simulator) + monitors",
}

OPEN_ERR = {"S": 0, "T": 0, "B": -16, "U": -9, "X": 0}


# ----------------------------------------------------------------------------- unit: fd queue / accept
def gen_unit_case(rng, big=False):
    """one stream, arbitrary interleaving of arrivals and claims; ids are fresh per case"""
    nid = [0]
    def fresh(k):
        r = list(range(nid[0], nid[0] + k)); nid[0] += k; return r
    def acc_kind():
        return rng.choice(["S", "S", "S", "T", "S", "T", "U", "B", "X"])
    lines = []
    if rng.chance(1, 2):
        lines.append(f"init I {rng.choice([1, 1, 1, 0])}")
        for _ in range(rng.range(3, 40 if big else 18)):
            r = rng.below(10)
            if r < 4:
                k = rng.choice([1, 1, 1, 2, 3, 5, 8, 9, 12, 17, 40 if big else 20])
                fail = "-" if rng.chance(5, 6) else str(rng.below(3))
                lines.append(f"recv {fail} " + " ".join(map(str, fresh(k))))
            elif r < 9:
                for _ in range(rng.choice([1, 1, 2, 5, 9])):
                    k = acc_kind(); lines.append(f"accept {k} {OPEN_ERR[k]}")
            elif rng.chance(1, 3):
                lines.append("close")
    else:
        lines.append(f"init L {rng.choice([0, 0, 1])}")
        for _ in range(rng.range(3, 30 if big else 14)):
            r = rng.below(12)
            if r < 6:
                lines.append(f"io ok {fresh(1)[0]}")
                m = rng.below(6)          # what the connection callback does
                if m < 3:
                    k = acc_kind(); lines.append(f"accept {k} {OPEN_ERR[k]}")
                    if rng.chance(1, 4):
                        k = acc_kind(); lines.append(f"accept {k} {OPEN_ERR[k]}")
                elif m == 3 and rng.chance(1, 3):
                    lines.append("close")
                lines.append("ioend")
            elif r < 8:
                k = acc_kind(); lines.append(f"accept {k} {OPEN_ERR[k]}")
            elif r < 9:
                lines.append(f"io err {rng.choice([-11, -103, -4, -71, -24, -23])}")
            elif r < 11:
                shed = fresh(rng.below(4))
                lines.append(f"io trick {rng.choice([-24, -23])} {rng.choice([-11, -103])} {rng.choice([1, 1, 0])} "
                             + " ".join(map(str, shed)))
            elif rng.chance(1, 3):
                lines.append("close")
    return lines


def parse_state(line):
    d = {}
    for tok in line.split():
        if "=" in tok:
            k, v = tok.split("=", 1); d[k] = v
    return d


def ids(s):
    return [int(x) for x in s.split(",") if x != ""]


def unit_monitor(case, out):
    """the property text on the implementation's dump, with its own FIFO bookkeeping"""
    if len(out) != len(case):
        return "implementation log has %d lines for %d ops" % (len(out), len(case))
    pend, arrived, gone = [], [], []      # unclaimed (oldest first); every arrival; claimed or closed
    role = ipc = prev = None
    closed = in_cb = stuck = False
    for cmd, o in zip(case, out):
        w = cmd.split(); d = parse_state(o)
        if "r" not in d:
            return f"`{cmd}` -> `{o}`"
        r = int(d["r"]); cl = ids(d["cl"])
        if w[0] == "init":
            role, ipc = w[1], w[2] == "1"
        elif w[0] == "io":
            possible = role == "L" and not closed and not in_cb and not pend and not stuck
            if possible and w[1] == "ok":
                pend.append(int(w[2])); arrived.append(int(w[2])); in_cb = True
            elif possible and w[1] == "trick":
                shed = [int(x) for x in w[5:]]
                have_spare = prev["spare"] == "1"
                if have_spare:
                    arrived += shed
                    if cl != shed:
                        return f"EMFILE trick: accepted-and-shed {shed} but closed {cl}"
                    gone += cl; cl = []
                    if d["spare"] != w[4]:
                        return f"EMFILE trick: spare descriptor present={d['spare']} after reopen={w[4]}"
        elif w[0] == "ioend":
            in_cb = False
        elif w[0] == "accept":
            if not pend:
                if r != -11:
                    return f"uv_accept with nothing pending returned {r}, expected UV_EAGAIN"
            else:
                if r == -11:
                    return f"uv_accept returned UV_EAGAIN with {len(pend)} pending"
                if w[1] == "X":
                    if r != -22:
                        return f"uv_accept into a non-stream client returned {r}"
                else:
                    head = pend.pop(0)
                    if r == 0:
                        if d.get("got") != str(head):
                            return f"uv_accept delivered {d.get('got')} but the oldest unclaimed is {head} (order/loss)"
                        gone.append(head)
                    else:
                        if cl != [head]:
                            return f"uv_accept failed ({r}) and closed {cl}, expected the taken descriptor {head}"
                        gone.append(head); cl = []
                        if role == "L" and not in_cb and not pend:
                            stuck = True           # code as written: no re-arm after a failed deferred accept
        elif w[0] == "recv":
            if role == "I" and not closed:
                new = [int(x) for x in w[2:]]
                arrived += new
                if r == 0 and cl:
                    return f"recv_cmsg returned 0 but closed {cl}"
                if r != 0 and (w[1] == "-" or r != -12):
                    return f"recv_cmsg returned {r} without a scripted allocation failure"
                if cl and new[len(new) - len(cl):] != cl:
                    return f"recv_cmsg closed {cl}, not a suffix of {new}"
                pend += new[:len(new) - len(cl)]
                gone += cl; cl = []
        elif w[0] == "close":
            if not closed:
                if cl != pend:
                    return f"uv_close closed {cl} but {pend} were pending"
                gone += cl; cl = []; pend = []
            closed = True
        if cl:
            return f"`{cmd}` closed descriptors {cl} unexpectedly"
        # state agrees with the monitor's own bookkeeping
        cur = ([] if d["acc"] == "-" else [int(d["acc"])]) + (ids(d["q"].split(":", 1)[1]) if d["q"] != "-" else [])
        if cur != pend:
            return f"after `{cmd}`: accepted_fd+queue = {cur}, unclaimed arrivals (in order) = {pend}"
        if d["q"] != "-":
            size, off = map(int, d["q"].split(":")[0].split("/"))
            if not (0 < off <= size):
                return f"after `{cmd}`: queue offset {off} size {size}"
        if int(d["pc"]) != (len(pend) if ipc else 0):
            return f"after `{cmd}`: uv_pipe_pending_count = {d['pc']}, unclaimed = {len(pend)} (ipc={ipc})"
        if role == "L" and not closed:
            want = "1" if (in_cb or (not pend and not stuck)) else "0"
            if d["pollin"] != want and not (stuck and not pend):
                return f"after `{cmd}`: POLLIN armed={d['pollin']} with {len(pend)} unclaimed (in_cb={in_cb})"
        if sorted(gone + pend) != sorted(arrived) or len(set(arrived)) != len(arrived):
            return f"after `{cmd}`: conservation broken: arrived {arrived}, claimed/closed {gone}, pending {pend}"
        prev = d
    return None


def run_unit(ctx, exe, cases, label):
    text = "".join("\n".join(c) + "\n" for c in cases)
    rc, iout, ierr = ctx.run(exe, text=text, env={"ASAN_OPTIONS": "detect_leaks=1:exitcode=99"})
    il = iout.splitlines()
    if rc != 0:
        # find the case that killed it: rerun one by one
        for c in cases:
            rc1, o1, e1 = ctx.run(exe, text="\n".join(c) + "\n")
            if rc1 != 0:
                ctx.violation("unit-crash", f"C07 fd-queue harness exited {rc1} ({label}): {e1[-600:]}", {"mode": "unit", "ops": shrink_unit(ctx, exe, c, crash=True)})
                return False
        ctx.violation("unit-crash", f"C07 fd-queue harness exited {rc}: {ierr[-600:]}", {"mode": "unit", "ops": cases[-1]})
        return False
    ml = ctx.driver(["accept"], text).splitlines()
    pos = 0
    for c in cases:
        n = len(c)
        ci, cm = il[pos:pos + n], ml[pos:pos + n]
        pos += n
        ctx.count()
        bad = unit_monitor(c, ci)
        if bad:
            if ctx.violation("unit-monitor-" + bad.split(":")[0][:40].replace(" ", "-"), f"C07 accept/fd-queue ({label}): {bad}",
                             {"mode": "unit", "ops": shrink_unit(ctx, exe, c)}):
                return False
            continue
        if ci != cm:
            k = next((i for i in range(min(len(ci), len(cm))) if ci[i] != cm[i]), 0)
            ctx.broken_correspondence("accept model vs src/unix/stream.c (unit)",
                                      f"after `{c[k]}`: impl `{ci[k] if k < len(ci) else None}` model `{cm[k] if k < len(cm) else None}`; case {c}")
            return False
        ctx.validated()
        maxq = max([int(parse_state(l)["q"].split("/")[0]) for l in ci if parse_state(l).get("q", "-") != "-"] + [0])
        deferred = any(a.startswith("ioend") and parse_state(b)["acc"] != "-" for a, b in zip(c, ci))
        if maxq > 8 or deferred:
            ctx.nontrivial("U" + hashlib.sha1("\n".join(ci).encode()).hexdigest()[:12])
        ctx.notes["unit_max_queue_size"] = max(ctx.notes.get("unit_max_queue_size", 0), maxq)
    return True


def shrink_unit(ctx, exe, c, crash=False):
    cur = list(c); i = 1
    while i < len(cur):
        cand = cur[:i] + cur[i + 1:]
        rc, out, _ = ctx.run(exe, text="\n".join(cand) + "\n")
        try:
            bad = (rc != 0) if crash else (rc == 0 and unit_monitor(cand, out.splitlines()))
        except Exception:
            bad = False
        if bad:
            cur = cand
        else:
            i += 1
    return cur


def exhaustive_unit_cases(maxn):
    """every push/pop interleaving shape: receive k descriptors in chunks, then pops, for k = 1..maxn"""
    for k in range(1, maxn + 1):
        for chunk in (1, 3, 8, 9, k):
            for pops_between in (0, 1, 2):
                lines, nid = ["init I 1"], 0
                while nid < k:
                    m = min(chunk, k - nid)
                    lines.append("recv - " + " ".join(str(x) for x in range(nid, nid + m))); nid += m
                    lines += ["accept S 0"] * pops_between
                lines += ["accept S 0"] * (k + 1)
                yield lines


from c07_sim import run_sim_part   # simulator half lives in checks/c07_sim.py (same owner)


def run(ctx):
    ctx.trusted += ["flattening of connection_cb into ioBegin / callback ops / ioEnd (validated by the unit harness which runs the ops inside the real callback)",
                    "fake descriptors + uv__close macro redirect in the unit harness; accept4/open interposition",
                    "clang/ASan/UBSan"]
    ctx.assumptions += ["descriptor identities are unique per open file description (kernel never hands the same connection out twice)",
                        "SCM_RIGHTS delivery order and SO_ERROR semantics of the kernel (inputs of the model)"]
    ctx.trusted += ["tools/gen_lean.py (clang AST -> Lean for the loop-free kernels check_before_write) and UvModel/CSem.lean"]
    # Tie A: uv__check_before_write regenerated from /repo, GenEq/C07 re-proves it = Accept.checkBeforeWrite
    gen_ok = ctx.gen_lean(need=["C07"])
    proofs_ok = ctx.require_lean(["UvModel.GenEq.C07", "UvModel.Props.C07", "UvModel.Props.C07Connect", "UvModel.Props.C07Send"]) and gen_ok
    uexe = ctx.harness("c07_unit", ["harness/c07_unit.c"], link_lib=True)
    sexe = ctx.harness("c07_sim", ["harness/c07_sim.c"], link_lib=True)
    if ctx.replay:
        rp = json.loads(Path(ctx.replay).read_text())["replay"]
        if rp.get("mode") == "unit" and uexe:
            run_unit(ctx, uexe, [rp["ops"]], "replay")
        elif sexe:
            run_sim_part(ctx, sexe, replay=rp)
        return
    rng = ctx.rng
    if uexe:
        ex = list(exhaustive_unit_cases(ctx.scale(40, 64)))
        ok = run_unit(ctx, uexe, ex, "exhaustive chunks x pops, 1..40 descriptors")
        cases = [gen_unit_case(rng, big=rng.chance(1, 4)) for _ in range(ctx.scale(1000, 30000))]
        for i in range(0, len(cases), 500):
            ok = ok and run_unit(ctx, uexe, cases[i:i + 500], "random")
        ctx.sample({"unit_ops": cases[0][:14]})
    if sexe:
        run_sim_part(ctx, sexe)
    if (ctx.broken or not proofs_ok) and not ctx.violations:
        ctx.log("obligation broken; searching for a failing input with the monitors")
        srng = SplitMix(ctx.seed + 4242); n = 0
        if uexe:
            for _ in range(60):
                cases = [gen_unit_case(srng, big=True) for _ in range(500)]
                rc, iout, ierr = ctx.run(uexe, text="".join("\n".join(c) + "\n" for c in cases))
                il = iout.splitlines(); pos = 0
                for c in cases:
                    n += 1
                    try:
                        bad = unit_monitor(c, il[pos:pos + len(c)])
                    except Exception as e:
                        bad = f"log unreadable ({e})"
                    pos += len(c)
                    if bad:
                        ctx.violation("unit-monitor", f"C07 accept/fd-queue (search): {bad}", {"mode": "unit", "ops": shrink_unit(ctx, uexe, c)})
                        break
                if ctx.violations or rc != 0:
                    break
        if sexe and not ctx.violations:
            n += run_sim_part(ctx, sexe, search=True)
        ctx.notes["search"] = f"{n} extra cases run against the monitors after an obligation broke"
    ctx.notes["code_as_is"] = ("uv_accept() outside connection_cb into a client that fails uv__stream_open (e.g. UV_EBUSY) closes the "
                               "connection and leaves POLLIN paused with nothing pending (stream.c:594 `if (err == 0)`); proved as "
                               "pollin_stays_paused_after_failed_deferred_accept, reproduced by the unit harness; API misuse, not counted as a violation")
    ctx.cov["rule"] = ("unit: exhaustive (count 1..40/64) x chunking x interleaved pops, then random op sequences on a listening or "
                       "IPC stream (accept results, EMFILE trick, allocation failures, 5 client kinds, close); non-trivial = queue grown "
                       "past 8 slots or a deferred accept, distinct by state-dump hash. sim: random programs over real sockets; "
                       "non-trivial = >=1 deferred accept or >8 queued descriptors or a failed connect or an IPC sender hang-up with messages unread "
                       "(close / shutdown / both directions shut x before the first read or inside the k-th callback x claim policy imm/every-N/late/"
                       "paused reader x buffer 1..64K x plain and handle-bearing writes), distinct by trace hash")
