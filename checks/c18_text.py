"""C18, text half — src/idna.c: UTF-8 decoding, IDNA/Punycode ToASCII (as used by uv_getaddrinfo),
WTF-8 <-> UTF-16 converters.  Proofs: UvModel.Props.C18Text.  Tie B: harness/c18_text.c (idna.c of
the working tree compiled into the harness, every input and output buffer ending at an
inaccessible page) against `uvdriver c18text`, line by line.  Monitors (independent of the Lean
model): Python's strict UTF-8 decoder decides accept/reject and the scalar value, Python's
`punycode` codec gives the expected ACE form (validation of RFC 3492 digit equality, not a proof),
Python's `surrogatepass` codecs give the expected WTF-8 / UTF-16 and the round trip.

The caller of the codec, uv_getaddrinfo, is run in harness/c18_gai.c with the C library's resolver interposed
(`uvdriver c18gai`, UvModel/GaiHost.lean, Props/C18Gai.lean): see the section "the caller of the codec" below.

`run_text(ctx)` is called by checks/c18.py; checks/c18t.py is a stand-alone wrapper."""
import json, hashlib
from pathlib import Path
from vlib import *

TEXT_MODULES = ["UvModel.Props.C18Text", "UvModel.Props.C18Gai"]
DOTS = [".", "。", "．", "｡"]
EINVAL, E2BIG, ENOBUFS = -22, -7, -105


# ------------------------------------------------------------------ references (Python codecs)
def ref_utf8_prefix(b):
    """(scalar, length) if b starts with a well-formed UTF-8 sequence (Unicode Table 3-7), else None"""
    for n in range(1, 5):
        if n > len(b):
            break
        try:
            s = bytes(b[:n]).decode("utf-8", "strict")
        except UnicodeDecodeError:
            continue
        if len(s) == 1:
            return ord(s), n
    return None


def lead_need(a):
    return 3 if a > 0xEF else 2 if a > 0xDF else 1 if a > 0xBF else 0


def illformed_class(b):
    """why is the first sequence of b ill-formed: used for the violation signature"""
    if not b:
        return "empty"
    need = lead_need(b[0])
    if 0xC2 <= b[0] <= 0xF4 and len(b) - 1 < need and all(0x80 <= x <= 0xBF for x in b[1:]):
        return "truncated"
    trail = b[1:1 + need]
    if len(trail) == need and sum(1 for x in trail if not 0x80 <= x <= 0xBF) >= 2:
        return "xor-continuation-check"
    return "illformed"


def first_bad_class(b):
    """class of the first ill-formed sequence of a whole string"""
    i = 0
    while i < len(b):
        r = ref_utf8_prefix(b[i:])
        if r is None:
            return illformed_class(b[i:])
        i += r[1]
    return None


def ref_toascii(b):
    """expected ACE bytes (without NUL) or None when the input is not well-formed UTF-8"""
    try:
        s = bytes(b).decode("utf-8", "strict")
    except UnicodeDecodeError:
        return None
    for d in DOTS[1:]:
        s = s.replace(d, ".")
    out = []
    for lab in s.split("."):
        if all(ord(c) < 128 for c in lab):
            out.append(lab.encode("ascii"))
        else:
            out.append(b"xn--" + lab.encode("punycode"))
    return b".".join(out)


def units_to_str(us):
    return b"".join(u.to_bytes(2, "little") for u in us).decode("utf-16-le", "surrogatepass")


def ref_wtf8(us):
    return units_to_str(us).encode("utf-8", "surrogatepass")


def ref_utf16(b):
    """units (without terminator) for valid generalized UTF-8, else None"""
    try:
        s = bytes(b).decode("utf-8", "surrogatepass")
    except UnicodeDecodeError:
        return None
    raw = s.encode("utf-16-le", "surrogatepass")
    return [int.from_bytes(raw[i:i + 2], "little") for i in range(0, len(raw), 2)]


def hx(b):
    return bytes(b).hex() if len(b) else "-"


def hu(us):
    return ",".join("%04x" % u for u in us) if us else "-"


def unhx(s):
    return b"" if s == "-" else bytes.fromhex(s)


# ------------------------------------------------------------------ monitors: property text on the implementation's answer
def monitor(line, out):
    """returns None or (sig, text)"""
    w = line.split()
    o = out.split()
    if not o or o[0] != w[0]:
        return ("text-harness-protocol", f"`{line}` answered `{out}`")
    if w[0] == "u8":
        b = unhx(w[1])
        ref = ref_utf8_prefix(b)
        got = None if o[1] == "-1" else int(o[1])
        if ref is None and got is not None:
            cls = illformed_class(b)
            return (f"utf8-decode1-{cls}-accepted" if cls != "xor-continuation-check" else "utf8-decode1-xor-continuation-check",
                    f"uv__utf8_decode1 accepts the ill-formed ({cls}) sequence {b.hex(' ')} as U+{got:04X}")
        if ref is not None and got is None:
            return ("utf8-decode1-wellformed-rejected", f"uv__utf8_decode1 rejects well-formed {b.hex(' ')}")
        if ref is not None and (got, int(o[2])) != ref:
            return ("utf8-decode1-wrong-value", f"uv__utf8_decode1({b.hex(' ')}) = U+{got:04X} len {o[2]}, expected U+{ref[0]:04X} len {ref[1]}")
        return None
    if w[0] == "ta":
        b, cap = unhx(w[1]), int(w[2])
        rc, buf = int(o[1]), unhx(o[2])
        if len(buf) != cap:
            return ("text-harness-protocol", f"`{line}` answered `{out}`")
        if len(b) == 0:
            return None if rc == EINVAL else ("toascii-empty-accepted", f"uv__idna_toascii of the empty string returned {rc}")
        ref = ref_toascii(b)
        if ref is None:
            if rc == EINVAL:
                return None
            cls = first_bad_class(b)
            sig = {"xor-continuation-check": "toascii-illformed-accepted-xor", "truncated": "toascii-truncated-accepted"}.get(cls, "toascii-illformed-accepted")
            return (sig, f"uv__idna_toascii accepts ill-formed UTF-8 ({cls}) {b.hex(' ')}: rc={rc} out={buf[:max(rc, 0)]!r} (expected UV_EINVAL)")
        need = len(ref) + 1
        if rc == E2BIG and len(b) > 1000:
            return None          # 32-bit delta overflow on a very long name: allowed error, no write past the end happened
        if cap < need:
            if rc != EINVAL:
                return ("toascii-small-destination", f"uv__idna_toascii({b!r}) into {cap} bytes (needs {need}) returned {rc}, expected UV_EINVAL")
            return None
        if rc != need or buf[:need] != ref + b"\0":
            return ("toascii-wrong-output", f"uv__idna_toascii({b!r}) cap {cap}: rc={rc} out={buf[:max(rc, 0)]!r}, expected {need} {ref!r} (per-label xn-- iff non-ASCII, RFC 3492 digits per Python codec)")
        if any(x != 0xAA for x in buf[need:]):
            return ("toascii-writes-after-nul", f"uv__idna_toascii({b!r}) touched bytes after the terminator")
        return None
    if w[0] == "w8":
        b = unhx(w[1])
        ref = ref_utf16(b)
        if ref is None:
            return None          # the property does not say what ill-formed WTF-8 must do (bounds are checked by the guard page)
        if 0 in b:
            ref = ref_utf16(b[:b.index(0)])
        exp = ref + [0]
        if o[1] != str(len(exp)):
            return ("wtf8-length-as-utf16-inexact", f"uv_wtf8_length_as_utf16({b.hex(' ')}) = {o[1]}, expected {len(exp)}")
        if o[2] != hu(exp):
            return ("wtf8-to-utf16-wrong", f"uv_wtf8_to_utf16({b.hex(' ')}) = {o[2]}, expected {hu(exp)}")
        return None
    if w[0] == "u16":
        z = w[1] == "z"
        us = [int(x, 16) for x in w[2].split(",")] if w[2] != "-" else []
        if z and 0 in us:
            us = us[:us.index(0)]
        ref = ref_wtf8(us)
        ln, rc, rep, buf = int(o[1]), int(o[2]), int(o[3]), unhx(o[4])
        if ln != len(ref):
            return ("utf16-length-as-wtf8-inexact", f"uv_utf16_length_as_wtf8({hu(us)}) = {ln}, expected {len(ref)}")
        if w[3] == "alloc" or int(w[3]) >= len(ref):
            if rc != 0 or rep != len(ref) or buf[:len(ref) + 1] != ref + b"\0":
                return ("utf16-to-wtf8-wrong", f"uv_utf16_to_wtf8({hu(us)}, target {w[3]}): rc={rc} len={rep} out={buf.hex()}, expected 0 {len(ref)} {ref.hex()}00")
            return None
        n = int(w[3])
        if rc != ENOBUFS:
            return ("utf16-to-wtf8-small-target", f"uv_utf16_to_wtf8({hu(us)}) into {n} bytes (needs {len(ref)}) returned {rc}, expected UV_ENOBUFS")
        if buf[:n + 1] != ref[:n] + b"\0":
            return ("utf16-to-wtf8-wrong", f"uv_utf16_to_wtf8({hu(us)}) into {n} bytes stored {buf.hex()}, expected {ref[:n].hex()}00")
        if rep != len(ref):
            return ("utf16_to_wtf8-enobufs-length-overreported",
                    f"uv_utf16_to_wtf8({hu(us)}) into {n} bytes: UV_ENOBUFS with *target_len_ptr={rep}, exact length is {len(ref)}")
        return None
    return ("text-harness-protocol", f"unknown op `{line}`")


# ------------------------------------------------------------------ generation
REPS_FULL = [0x00, 0x2E, 0x41, 0x7F, 0x80, 0x8F, 0x90, 0x9F, 0xA0, 0xBF, 0xC0, 0xC1, 0xC2, 0xDF, 0xE0, 0xE1, 0xEC,
             0xED, 0xEE, 0xEF, 0xF0, 0xF1, 0xF3, 0xF4, 0xF5, 0xF7, 0xF8, 0xFF]
REPS_SMALL = [0x41, 0x7F, 0x80, 0x9F, 0xA0, 0xBF, 0xC2, 0xE0, 0xE1, 0xED, 0xF0, 0xF4, 0xF5]

BOUNDARY_SCALARS = [0x00, 0x2E, 0x7F, 0x80, 0x7FF, 0x800, 0xFFF, 0x1000, 0x3002, 0xD7FF, 0xE000, 0xFF0E, 0xFF61, 0xFFFD,
                    0xFFFF, 0x10000, 0x3FFFF, 0x40000, 0xFFFFF, 0x100000, 0x10FFFF, 0x1041, 0x20AC, 0xE9, 0x1F600]


def enc_raw(cp, n=None):
    """UTF-8-style encoding without validity checks (for surrogates, overlongs, > 10FFFF)"""
    if n is None:
        n = 1 if cp < 0x80 else 2 if cp < 0x800 else 3 if cp < 0x10000 else 4
    if n == 1:
        return bytes([cp & 0x7F])
    if n == 2:
        return bytes([0xC0 | (cp >> 6) & 0x1F, 0x80 | cp & 0x3F])
    if n == 3:
        return bytes([0xE0 | (cp >> 12) & 0x0F, 0x80 | (cp >> 6) & 0x3F, 0x80 | cp & 0x3F])
    if n == 4:
        return bytes([0xF0 | (cp >> 18) & 0x07, 0x80 | (cp >> 12) & 0x3F, 0x80 | (cp >> 6) & 0x3F, 0x80 | cp & 0x3F])
    return bytes([0xF8, 0x80 | (cp >> 18) & 0x3F, 0x80 | (cp >> 12) & 0x3F, 0x80 | (cp >> 6) & 0x3F, 0x80 | cp & 0x3F])


def special_byte_strings():
    out = []
    for cp in BOUNDARY_SCALARS:
        out.append(enc_raw(cp))
    for cp in (0xD800, 0xDBFF, 0xDC00, 0xDFFF):                # CESU-style surrogates
        out.append(enc_raw(cp, 3))
    out.append(enc_raw(0xD83D, 3) + enc_raw(0xDE00, 3))         # CESU pair
    out += [bytes.fromhex(h) for h in ("c080", "c1bf", "e08080", "e09fbf", "f0808080", "f08fbfbf", "f4908080",
                                       "f7bfbfbf", "f888808080", "fc8480808080", "fe", "ff", "80", "bf",
                                       "e14141", "f12041c1", "e1c0c0", "e10000", "f1804141", "e2ffff", "f0c1c1bf")]
    for cp in (0x110000, 0x1FFFFF):
        out.append(enc_raw(cp, 4))
    base = list(out)
    # every truncation at the end of the input, and every sequence followed by another character
    for b in base:
        for k in range(1, len(b)):
            out.append(b[:k])
        out.append(b + b"A")
        out.append(b + b"\x80")
        out.append(b"A" + b)
    return out


RFC3492_SAMPLES = [  # RFC 3492 section 7.1 (A) Arabic, (B) Chinese, (I) Russian, (L) Japanese, (S)
    "ليهمابتكلموشعربي؟",
    "他们为什么不说中文",
    "почемужеонинеговорятпорусски",
    "3年B組金八先生", "-> $1.00 <-",
    "安室奈美恵-with-SUPER-MONKEYS", "Hello-Another-Way-それぞれの場所",
    "ひとつ屋根の下2", "MajiでKoiする5秒前", "パフィーdeルンバ",
]
LABELS = ["a", "www", "example", "com", "xn--abc", "A-b-9", "", "bücher", "ü", "ééé", "€", "a€",
          "例え", "παράδειγμα", "\U0001F600", "x\U0001F600y\U0001F4A9",
          "\U0010FFFF", "\u0080", "a\u0080", "￿", "\U00010000", "߿ࠀ", "zz\U0010FFFFzz", "-", "--", "a-", "၁",
          "퟿"] + RFC3492_SAMPLES


def gen_hostname(rng, maxlabels=4):
    n = rng.range(1, maxlabels)
    s = ""
    for i in range(n):
        r = rng.below(10)
        if r < 6:
            lab = rng.choice(LABELS)
        elif r < 8:
            lab = "".join(chr(rng.choice([0x61, 0x7A, 0x30, 0x2D, 0xE9, 0x3B1, 0x4E2D, 0x1F600, 0x80, 0x7FF, 0x800, 0xFFFD, 0x10FFFF, 0x10000]))
                          for _ in range(rng.range(1, 8)))
        else:
            lab = "".join(chr(rng.range(0x61, 0x7A)) for _ in range(rng.choice([1, 5, 62, 63, 64])))
        s += lab
        if i < n - 1 or rng.chance(1, 5):
            s += rng.choice(DOTS) if rng.chance(1, 3) else "."
    return s


def long_hostnames():
    out = []
    for n in (62, 63, 64, 65):
        out.append("a" * n)
        out.append("a" * n + ".com")
        out.append("é" * n)                                # every code point equal: long run of 'a' digits
        out.append("a" * (n - 1) + "ü")
    for total in (250, 252, 253, 254, 255, 256, 257, 300):
        lab = "abcdefghij" * 7
        s = ".".join([lab[:63]] * 5)[:total]
        out.append(s)
        out.append(s[:-3] + "é" + ".")
    out.append("中" * 100)
    out.append(".".join(["\U0001F600" * 20] * 4))
    return out


UNIT_REPS = [0x0041, 0x007F, 0x0080, 0x00E9, 0x07FF, 0x0800, 0x20AC, 0xD7FF, 0xD800, 0xDBFF, 0xDC00, 0xDFFF, 0xE000, 0xFFFF]


def product(alpha, n):
    if n == 0:
        yield []
        return
    for p in product(alpha, n - 1):
        for a in alpha:
            yield p + [a]


# ------------------------------------------------------------------ boundary search for the Punycode arithmetic
# An instrumented Python transcription of idna.c:222-312 (NOT the reference: expected outputs come from
# Python's codec).  It records which arithmetic boundaries a label exercises, so that the generator can
# guarantee that every run contains labels sitting exactly on / next to each constant of RFC 3492
# (tmin 1, tmax 26, skew 38, damp 700, initial_bias 72, loop threshold ((36-1)*26)/2 = 455).
M32 = 0xFFFFFFFF


def puny_events(cps):
    """set of boundary events hit by the label with these code points"""
    ev = set()
    h = sum(1 for c in cps if c < 128)
    todo = len(cps) - h
    n, bias, delta, first = 128, 72, 0, True
    step = 0
    while todo > 0:
        m = min(c for c in cps if c >= n)
        delta = (delta + (m - n) * (h + 1)) & M32
        n = m
        for c in cps:
            if c < n:
                delta = (delta + 1) & M32
            if c != n:
                continue
            step += 1
            last = todo == 1            # nothing is encoded after this adaptation
            k, q = 36, delta
            while True:
                t = 1
                if k > bias:
                    t = k - bias
                kb = k - bias
                if -1 <= kb <= 2 or 25 <= kb <= 27:
                    ev.add(("k-bias", kb))
                if t > 26:
                    t = 26
                if -1 <= q - t <= 1:
                    ev.add(("q-t", q - t, min(t, 2) if t < 26 else 26))
                if q < t:
                    break
                x = q - t
                y = 36 - t
                q = x // y
                k += 36
            ev.add(("ndigits", min(k // 36, 6)))
            if first:
                for b in (699, 700, 701, 1399, 1400, 1401):
                    if delta == b:
                        ev.add(("damp", b, last))
                delta //= 700
            else:
                ev.add(("half-odd", delta & 1))
                delta //= 2
            first = False
            h += 1
            if delta // h in (0, 1) and delta in (h - 1, h, h + 1):
                ev.add(("delta/h", delta - h, last))
            delta += delta // h
            bias = 0
            it = 0
            while True:
                if 453 <= delta <= 457:
                    ev.add(("loop455", delta, it, last))       # the value compared with 455
                if not delta > 455:
                    break
                delta //= 35
                bias += 36
                it += 1
            if delta in (0, 1, 2, 37, 38, 39, 454, 455):
                ev.add(("skew", delta, last))
            bias += 36 * delta // (delta + 38)
            if bias in (71, 72, 73):
                ev.add(("bias72", bias, last))
            delta = 0
            todo -= 1
        delta += 1
        n += 1
    return ev


SEARCH_POOL = ([0xE9, 0xFC, 0xFD, 0x1B3, 0x3B1, 0x3C9, 0x454, 0x5D0, 0x627, 0x905, 0xE01, 0x10D0, 0x1E00, 0x2020, 0x20AC,
                0x3042, 0x30A2, 0x4E2D, 0x9FFF, 0xAC00, 0xD7A3, 0xE000, 0xFB01, 0xFFFD, 0x10000, 0x1F600, 0x2A6D6, 0x10FFFF,
                0x80, 0x7FF, 0x800])
_BOUNDARY_CACHE = {}


def boundary_labels(seed, tries, per_event=3):
    """systematic families + random mixed-script labels; keeps up to per_event labels for every distinct event.
    Events whose adaptation step is not the last one come first (only then the bias influences the output)."""
    key = (seed, tries, per_event)
    if key in _BOUNDARY_CACHE:
        return _BOUNDARY_CACHE[key]
    rng = SplitMix(seed)
    found = {}
    def consider(cps):
        for e in puny_events(cps):
            l = found.setdefault(e, [])
            if len(l) < per_event and cps not in l:
                l.append(list(cps))
    # systematic: k ASCII letters, then c1 < c2 = c1 + gap, then a far third code point (non-final adaptation)
    for nasc in (0, 1, 2, 3):
        for base in (0xE9, 0x3B1, 0x4E2D):
            for gap in range(1, 1400):
                consider([0x61] * nasc + [base, base + gap, 0x1F600])
                if gap % 3 == 0:
                    consider([base + gap] + [0x7A] * nasc + [base, 0xFFFD])
    for first in range(0x80, 0x80 + 1500):                       # damp 700 on the first code point
        consider([first, 0x3B1, 0x4E2D])
    for _ in range(tries):
        n = rng.range(3, 6)
        cps = []
        for _ in range(n):
            r = rng.below(10)
            if r < 2:
                cps.append(rng.choice([0x61, 0x7A, 0x30, 0x2D, 0x6E]))
            elif r < 6:
                cps.append(rng.choice(SEARCH_POOL) + rng.below(64))
            else:
                cps.append(rng.range(0x80, 0x2FFF))
        cps = [c if c <= 0x10FFFF and not 0xD800 <= c <= 0xDFFF else 0xFFFD for c in cps]
        if any(c >= 128 for c in cps):
            consider(cps)
    _BOUNDARY_CACHE[key] = found
    return found


def gen_lines(ctx, rng, boost=1):
    """list of (line, tag); tag = generation class (for notes)"""
    L = []
    # --- uv__utf8_decode1
    for a in range(256):
        L.append((f"u8 {a:02x}", "u8-exh1"))
    for a in range(256):
        for b in range(256):
            L.append((f"u8 {a:02x}{b:02x}", "u8-exh2"))
    for p in product(REPS_FULL, 3):
        L.append(("u8 " + bytes(p).hex(), "u8-reps3"))
    reps4 = REPS_FULL if (not ctx.quick or boost > 1) else REPS_SMALL
    for p in product(reps4, 4):
        L.append(("u8 " + bytes(p).hex(), "u8-reps4"))
    spec = special_byte_strings()
    for b in spec:
        if b:
            L.append(("u8 " + b.hex(), "u8-special"))
    # --- uv__idna_toascii: short strings, specials, host names, every destination size
    for n in (1, 2):
        for p in product(REPS_FULL, n):
            L.append((f"ta {hx(bytes(p))} 64", "ta-reps"))
    if not ctx.quick or boost > 1:
        for p in product(REPS_SMALL + [0x2E], 3):
            L.append((f"ta {hx(bytes(p))} 64", "ta-reps"))
    L.append(("ta - 16", "ta-special"))
    for b in spec:
        for pre, post in ((b"", b""), (b"ab.", b".c"), (b"\xc3\xa9", b"")):
            L.append((f"ta {hx(pre + b + post)} 256", "ta-special"))
    hosts = [l for l in LABELS if l] + [a + d + b for a in ("a", "é", "") for b in ("b", "ü", "") for d in DOTS if a + b]
    hosts += ["a..b", "a.", ".", "..", "。", "a．｡b", "www.bücher.example.", "xn--abc.ü"]
    hosts += long_hostnames()
    hosts += [gen_hostname(rng) for _ in range(ctx.scale(150, 3000) * boost)]
    # labels found by the boundary search: every arithmetic constant of the encoder hit at b-1, b, b+1
    found = boundary_labels(rng.next(), ctx.scale(25000, 250000) * boost)
    nb = 0
    for e in sorted(found, key=repr):
        for cps in found[e]:
            lab = "".join(map(chr, cps))
            L.append((f"ta {hx(lab.encode('utf-8'))} 256", "ta-boundary"))
            L.append((f"ta {hx(('www.' + lab + '.example').encode('utf-8'))} 256", "ta-boundary"))
            nb += 1
    ctx.notes["text_punycode_boundaries"] = {
        "events_hit": len(found), "labels": nb,
        "loop455_nonfinal": sorted({e[1] for e in found if e[0] == "loop455" and not e[3]}),
        "loop455_at_iteration>0": sorted({e[1] for e in found if e[0] == "loop455" and e[2] > 0}),
        "damp": sorted({e[1] for e in found if e[0] == "damp"}),
        "skew": sorted({e[1] for e in found if e[0] == "skew"}),
        "k-bias": sorted({e[1] for e in found if e[0] == "k-bias"}),
        "q-t": sorted({(e[1], e[2]) for e in found if e[0] == "q-t"}),
        "bias72": sorted({e[1] for e in found if e[0] == "bias72"})}
    sizes_budget = ctx.scale(60, 800) * boost
    for i, h in enumerate(hosts):
        b = h.encode("utf-8")
        ref = ref_toascii(b)
        need = len(ref) + 1
        L.append((f"ta {hx(b)} 256", "ta-host"))                 # the destination uv_getaddrinfo uses
        if i < sizes_budget or rng.chance(1, 10):
            for cap in range(0, need + 3):
                L.append((f"ta {hx(b)} {cap}", "ta-sizes"))
        else:
            for cap in (0, need - 1, need, need + 1):
                L.append((f"ta {hx(b)} {cap}", "ta-sizes"))
        # mutated: one byte damaged / truncated
        if len(b) > 1 and rng.chance(1, 2):
            k = rng.below(len(b))
            mb = b[:k] + bytes([rng.choice(REPS_FULL)]) + b[k + 1:]
            L.append((f"ta {hx(mb)} 256", "ta-mutated"))
            L.append((f"ta {hx(b[:rng.range(1, len(b))])} 256", "ta-mutated"))
    if not ctx.quick:
        L.append((f"ta {hx(('a' * 4000 + chr(0x10FFFF)).encode())} 8192", "ta-overflow"))
        L.append((f"ta {hx(('a' * 3000 + chr(0x10FFFF)).encode())} 8192", "ta-overflow"))
    # --- UTF-16 <-> WTF-8
    ulists = [[]]
    for n in (1, 2, 3):
        ulists += list(product(UNIT_REPS, n))
    ulists += [[rng.choice(UNIT_REPS + [rng.below(0x10000)]) for _ in range(rng.range(4, 12))] for _ in range(ctx.scale(150, 3000) * boost)]
    ub = ctx.scale(120, 1500) * boost
    for i, us in enumerate(ulists):
        us = [u for u in us]
        for z in ("z", "n"):
            L.append((f"u16 {z} {hu(us)} alloc", "u16-alloc"))
        ref = ref_wtf8(us)
        L.append((f"w8 {hx(ref)}", "w8-roundtrip"))              # round trip: must give `us` back
        if len(us) >= 3 and i >= ub and not rng.chance(1, 12):
            continue
        for cap in range(0, len(ref) + 3):
            L.append((f"u16 {'z' if (cap + i) % 2 else 'n'} {hu(us)} {cap}", "u16-sizes"))
    for us in ([0], [0x41, 0, 0x42], [0xD800, 0], [0, 0]):        # explicit length: NUL units are data
        L.append((f"u16 n {hu(us)} alloc", "u16-nul"))
        L.append((f"u16 z {hu(us)} alloc", "u16-nul"))
        L.append((f"u16 n {hu(us)} 2", "u16-nul"))
    for b in spec:
        if 0 not in b:
            L.append(("w8 " + hx(b), "w8-special"))
    for p in product([x for x in REPS_FULL if x], 2):
        L.append(("w8 " + bytes(p).hex(), "w8-reps"))
    for p in product([x for x in REPS_SMALL], 3):
        L.append(("w8 " + bytes(p).hex(), "w8-reps"))
    return L


# ------------------------------------------------------------------ the caller of the codec: uv_getaddrinfo
# harness/c18_gai.c links the whole library and defines getaddrinfo()/freeaddrinfo() itself: the resolver of the C
# library is replaced by one that records the node / service / hints it is handed and returns a canned answer.
# Monitor (property text, Python codecs only): whatever `hints` is, a host name reaches the resolver exactly as
# ref_toascii() of it (per-label xn-- iff non-ASCII, ideographic dots mapped), ill-formed UTF-8 is refused with
# UV_EINVAL before any resolver call, and a name whose converted form does not fit the 256-byte destination never
# reaches the resolver.  Correspondence: `uvdriver c18gai` (UvModel/GaiHost.lean) on the same lines.
AI_BITS = {"PASSIVE": 0x1, "CANONNAME": 0x2, "NUMERICHOST": 0x4, "V4MAPPED": 0x8, "ALL": 0x10, "ADDRCONFIG": 0x20,
           "IDN": 0x40, "CANONIDN": 0x80, "bit8": 0x100, "bit9": 0x200, "NUMERICSERV": 0x400, "bit11": 0x800}
FAMILIES = [0, 2, 10, 1, 999]          # AF_UNSPEC, AF_INET, AF_INET6, AF_UNIX, unknown
GAI_ANSWERS = [0, -2, 0, -3, -4, -10, -8]   # 0, EAI_NONAME, EAI_AGAIN, EAI_FAIL, EAI_MEMORY, EAI_SERVICE


def hint_shapes():
    """NULL, all-zero, every single ai_flags bit, the combinations programs use, all bits, each family / socktype /
    protocol"""
    out = ["null", "0,0,0,0"]
    for b in AI_BITS.values():
        out.append(f"{b},0,1,0")
    out += [f"{0x8 | 0x10},10,1,0", f"{0x4 | 0x1},0,1,0", f"{0x4 | 0x400},2,2,17", f"{0x2 | 0x20},0,1,6", f"{0x1 | 0x400},10,1,6",
            f"{0x4 | 0x8 | 0x10 | 0x20},10,0,0", f"{sum(AI_BITS.values())},0,0,0", "-1,0,0,0", f"{0x7fffffff},0,1,0"]
    for fam in FAMILIES[1:]:
        out.append(f"0,{fam},0,0")
    out += ["0,0,2,17", "0,0,3,0", "0,2,1,6", "0,0,0,255"]
    return out


def rand_hints(rng):
    if rng.chance(1, 8):
        return "null"
    f = 0
    for b in AI_BITS.values():
        if rng.chance(1, 4):
            f |= b
    if rng.chance(1, 20):
        f = rng.choice([-1, 0x7fffffff, -2147483648, 1 << 16, 1 << 30])
    return f"{f},{rng.choice(FAMILIES)},{rng.choice([0, 1, 2, 3, 5])},{rng.choice([0, 6, 17, 255])}"


def gai_hosts_curated():
    """host-name classes as byte strings (no NUL): ASCII, numeric, non-ASCII well-formed, the three ideographic full
    stops, ill-formed / truncated / overlong-encoded / surrogate, over-long"""
    H = []
    H += [b"localhost", b"example.com", b"a", b"a.", b"WWW.Example.COM.", b"127.0.0.1", b"::1", b"fe80::1%lo", b"0x7f.1",
          b"xn--bcher-kva.de", b"a..b", b".", b"-", b"*", b"a b", b"\x01\x7f"]
    H += [s.encode("utf-8") for s in (
        "bücher.de", "www.bücher.example.", "ü", "例え.テスト", "παράδειγμα.δοκιμή", "\U0001F600.ws", "a\u0080.b", "xn--abc.ü",
        "127。0．0｡1", "a。b", "www．bücher｡de", "。", "a｡", "１２７.0.0.1", "::１", "192.168.0.1。")]
    H += [s.encode("utf-8") for s in RFC3492_SAMPLES[:4]]
    H += [s.encode("utf-8") for s in long_hostnames()]
    H += [b"192.168.0.\xc3", b"\xc0\x80.1", b"\xc3", b"a.\xe2\x82", b"\xf0\x9f\x98.com", b"\xed\xa0\x80", b"\xff", b"a\x80b",
          b"b\xc3\xbccher.de\xe3\x80", b"127\xe3\x80\x82" + b"0.0.\xf4\x90\x80\x80", b"\xf8\x88\x80\x80\x80.x"]
    for b in special_byte_strings():
        if b and 0 not in b and ref_toascii(b) is None:
            H.append(b)
            H.append(b"ab." + b + b".c")
    seen, out = set(), []
    for b in H:
        if b not in seen:
            seen.add(b)
            out.append(b)
    return out


def gai_line(host, svc, hints, k):
    mode = "async" if k % 3 == 2 else "sync"
    h = "null" if host is None else hx(host)
    sv = "null" if svc is None else hx(svc)
    return f"gai {h} {sv} {hints} {mode} {GAI_ANSWERS[k % len(GAI_ANSWERS)]}"


def gen_gai_lines(ctx, rng, boost=1):
    L = []
    shapes = hint_shapes()
    cur = gai_hosts_curated()
    k = 0
    full = [b for b in cur if len(b) <= 24 or ref_toascii(b) is None][:ctx.scale(140, 100000)]
    for b in cur:
        hs = shapes if (b in full or not ctx.quick or boost > 1) else [shapes[0]] + [rng.choice(shapes) for _ in range(6)]
        for h in hs:
            L.append((gai_line(b, rng.choice([None, b"80", b"http", b""]) if k % 5 == 0 else None, h, k), "gai-curated"))
            k += 1
    # random host names (all four dot forms, mixed labels), each with random hints shapes; damaged copies
    for _ in range(ctx.scale(250, 6000) * boost):
        b = gen_hostname(rng).encode("utf-8").replace(b"\0", b"")
        if not b:
            continue
        for h in [rng.choice(shapes), rand_hints(rng), rand_hints(rng)]:
            L.append((gai_line(b, None, h, k), "gai-random"))
            k += 1
        if rng.chance(1, 2):
            j = rng.below(len(b))
            mb = (b[:j] + bytes([rng.choice([x for x in REPS_FULL if x])]) + b[j + 1:]) if rng.chance(1, 2) else b[:rng.range(1, len(b))]
            for h in [rng.choice(shapes), rand_hints(rng)]:
                L.append((gai_line(mb, None, h, k), "gai-mutated"))
                k += 1
    # argument shapes around the host step: no host (service only), neither, empty host, no request
    for h in shapes[:6] + [rand_hints(rng) for _ in range(4)]:
        for host, svc in ((None, b"80"), (None, None), (b"", None), (b"", b"80"), (None, b"")):
            L.append((gai_line(host, svc, h, k), "gai-args"))
            k += 1
        L.append((f"gai {hx('ü.de'.encode())} null {h} noreq 0", "gai-args"))
        L.append((f"gai {hx(bytes([0xc3]))} null {h} noreq 0", "gai-args"))
    return L


def gai_fields(out):
    return dict(p.split("=", 1) for p in out.split()[1:] if "=" in p)


def gai_hints_class(h):
    if h == "null":
        return "hints NULL"
    f = int(h.split(",")[0])
    names = [n for n, b in AI_BITS.items() if f & b]
    return f"hints ai_flags={f:#x}" + (" (" + "|".join("AI_" + n if not n.startswith("bit") else n for n in names) + ")" if names else "") + \
           " family/socktype/protocol=" + "/".join(h.split(",")[1:])


def monitor_gai(line, out):
    w = line.split()
    if not out.startswith("gai rc="):
        return ("text-harness-protocol", f"`{line}` answered `{out}`")
    f = gai_fields(out)
    rc, calls, node = int(f["rc"]), int(f["calls"]), f["node"]
    hc = gai_hints_class(w[3])
    if w[1] == "null" or w[4] == "noreq":
        return None              # argument checks are not part of the property text (the correspondence covers them)
    b = unhx(w[1])
    if not b:
        return None              # empty host name: the property does not say (correspondence covers it)
    ref = ref_toascii(b)
    seen = None if node == "null" else unhx(node)
    if ref is None:
        if rc == EINVAL and calls == 0:
            return None
        cls = first_bad_class(b)
        sig = "getaddrinfo-truncated-utf8-not-refused" if cls == "truncated" else "getaddrinfo-illformed-utf8-not-refused"
        return (sig, f"uv_getaddrinfo({b!r}, {hc}) returned {rc} (status {f['status']}) and handed {seen!r} to the resolver; "
                     f"ill-formed UTF-8 ({cls}) must be refused with UV_EINVAL whatever the hints are")
    if len(ref) + 1 > 256:
        if calls == 0 and rc < 0:
            return None
        return ("getaddrinfo-overlong-host-reaches-resolver",
                f"uv_getaddrinfo(<{len(b)} bytes, converted form {len(ref)} bytes>, {hc}) returned {rc} and handed a {len(seen or b'')}-byte "
                f"node to the resolver; the converted name does not fit the 256-byte destination")
    if calls == 0:
        return ("getaddrinfo-valid-host-refused", f"uv_getaddrinfo({b!r}, {hc}) returned {rc} without calling the resolver; expected node {ref!r}")
    if seen != ref:
        kind = "dots-not-mapped" if seen is not None and any(d.encode() in seen for d in DOTS[1:]) else \
               "nonascii-label-not-converted" if seen is not None and any(x >= 128 for x in seen) else "wrong-node"
        return ("getaddrinfo-" + kind,
                f"uv_getaddrinfo({b!r}, {hc}): the resolver was handed {seen!r}, expected {ref!r} (per-label xn-- iff non-ASCII; "
                f"U+3002/U+FF0E/U+FF61 are label separators)")
    if calls != 1:
        return ("getaddrinfo-resolver-called-twice", f"uv_getaddrinfo({b!r}, {hc}): resolver called {calls} times")
    return None


def shrink_gai(ctx, exe, line, sig):
    """smallest hints shape, then fewest host bytes, that still fail with the same signature"""
    def bad(l):
        outs, _ = run_impl(ctx, exe, [l])
        m = monitor_gai(l, outs[0]) if outs and outs[0] != "crash" else None
        return m is not None and m[0] == sig
    w = line.split()
    w[2] = "null" if w[1] != "null" else w[2]
    if not bad(" ".join(w)):
        w = line.split()
    if w[3] != "null":
        f = int(w[3].split(",")[0])
        for cand in ["null", "0,0,0,0"] + [f"{b},0,0,0" for b in AI_BITS.values() if f & b] + [f"{f},0,0,0"]:
            if bad(" ".join(w[:3] + [cand] + w[4:])):
                w[3] = cand
                break
    b = list(unhx(w[1])) if w[1] != "null" else []
    i = 0
    while i < len(b) and len(b) > 1:
        cand = b[:i] + b[i + 1:]
        if bad(" ".join([w[0], hx(bytes(cand))] + w[2:])):
            b = cand
        else:
            i += 1
    if b:
        w[1] = hx(bytes(b))
    return " ".join(w)


def check_gai(ctx, exe, tagged, with_model=True, label=""):
    lines = [l for l, _ in tagged]
    outs, crash = run_impl(ctx, exe, lines)
    if crash:
        k, detail = crash
        ctx.violation("text-gai-memory-fault", f"C18 text: uv_getaddrinfo harness died (guard page / sanitizer / abort) on `{lines[k][:200]}`: {detail}",
                      {"mode": "gai", "line": lines[k]})
    mouts = ctx.driver(["c18gai"], "\n".join(lines) + "\n").splitlines() if with_model else None
    diffs, tags, by_hints = [], {}, {}
    for i, (line, tag) in enumerate(tagged):
        o = outs[i] if i < len(outs) else "crash"
        ctx.count()
        tags[tag] = tags.get(tag, 0) + 1
        if o == "crash":
            continue
        m = monitor_gai(line, o)
        if m:
            sig, what = m
            line_r = line
            if sig not in ctx.known and not any(v["sig"] == sig for v in ctx.violations):
                sl = shrink_gai(ctx, exe, line, sig)
                so, _ = run_impl(ctx, exe, [sl])
                mm = monitor_gai(sl, so[0]) if so and so[0] != "crash" else None
                if mm and mm[0] == sig:
                    line_r, what = sl, mm[1]
            ctx.violation(sig, "C18 text: " + what, {"mode": "gai", "line": line_r})
            ctx.notes.setdefault("text_monitor_failures", {}).setdefault(sig, 0)
            ctx.notes["text_monitor_failures"][sig] += 1
        if with_model:
            mo = mouts[i] if i < len(mouts) else None
            if mo != o:
                diffs.append((line, o, mo, m is not None))
            else:
                ctx.validated()
        f = gai_fields(o) if o.startswith("gai rc=") else {}
        if f.get("calls") == "1" and f.get("node") not in (None, "null") and b"xn--" in unhx(f["node"]) or f.get("rc") == str(EINVAL):
            ctx.nontrivial(hashlib.sha1((line.split()[3] + o).encode()).hexdigest()[:12])
        hk = "null" if line.split()[3] == "null" else "flags=%#x" % (int(line.split()[3].split(",")[0]) & 0xffffffff)
        by_hints[hk] = by_hints.get(hk, 0) + 1
    for t, n in tags.items():
        ctx.notes.setdefault("text_cases_by_class" + label, {})[t] = n
    ctx.notes["gai_distinct_ai_flags_values" + label] = len(by_hints)
    return diffs


def run_gai(ctx, rng):
    exe = ctx.harness("c18_gai", ["harness/c18_gai.c"], link_lib=True)
    if exe is None:
        return
    tagged = gen_gai_lines(ctx, rng)
    diffs = check_gai(ctx, exe, tagged)
    ctx.sample({"gai_ops": [l for l, _ in tagged[500:502]]})
    if diffs:
        line, o, mo, _ = diffs[0]
        ctx.broken_correspondence("uv_getaddrinfo host-name step: model (GaiHost.lean) vs src/unix/getaddrinfo.c",
                                  f"{len(diffs)} differing lines; first: `{line[:300]}` impl `{o[:300]}` model `{(mo or '')[:300]}`")
    proofs_broken = any(k == "proof" for k, _, _ in ctx.broken)
    if (diffs or proofs_broken) and not ctx.violations:
        ctx.log("text/gai: obligation broken; searching with the monitors alone over an enlarged generation")
        more = gen_gai_lines(ctx, SplitMix(ctx.seed + 1818), boost=20)
        for line, _, _, _ in diffs[:50]:                       # bias: the differing hosts under every hints shape
            w = line.split()
            for h in hint_shapes():
                more.append((" ".join(w[:3] + [h] + w[4:]), "search"))
        check_gai(ctx, exe, more, with_model=False, label="_search")
        ctx.notes["search_gai"] = f"text/gai: {len(more)} extra cases run against the monitors after an obligation broke"
    ctx.cov["rule_gai"] = ("uv_getaddrinfo with the libc resolver interposed: host-name classes (ASCII, numeric, non-ASCII well-formed, "
                           "ideographic full stops, ill-formed / truncated / overlong / surrogate UTF-8, names around and beyond the "
                           "256-byte destination, random and damaged host names) crossed with hints shapes (NULL, zero, every single "
                           "ai_flags bit 0x1..0x800, usual combinations, all bits, every family / socktype / protocol, random), sync "
                           "(cb NULL) and thread-pool mode, 6 resolver answers; plus host NULL / empty / req NULL. Non-trivial = an "
                           "xn-- node reached the resolver or the call was refused; distinct by hints + output line")



# ------------------------------------------------------------------ running
def run_impl(ctx, exe, lines):
    """returns (outputs, crash) ; crash = (index, stderr tail) if the harness died on a line"""
    outs = []
    pos = 0
    crash = None
    while pos < len(lines):
        text = "\n".join(lines[pos:]) + "\n"
        rc, so, se = ctx.run(exe, text=text, env={"ASAN_OPTIONS": "detect_leaks=0:exitcode=99:handle_segv=1"})
        got = so.splitlines()
        got = got[:len(lines) - pos]
        outs += got
        if rc == 0 and len(got) == len(lines) - pos:
            break
        # died on line pos+len(got): record, answer "crash" and continue after it
        k = pos + len(got)
        if crash is None:
            crash = (k, f"rc={rc} " + se[-600:])
        outs.append("crash")
        pos = k + 1
        if len([o for o in outs if o == "crash"]) > 20:
            outs += ["crash"] * (len(lines) - len(outs))
            break
    return outs, crash


def shrink_line(ctx, exe, line, sig):
    """drop bytes / units while the same monitor signature fails"""
    w = line.split()
    if w[0] not in ("u8", "ta", "w8"):
        return line
    b = list(unhx(w[1]))
    rest = w[2:]
    def bad(bb):
        if not bb:
            return False
        l = " ".join([w[0], hx(bytes(bb))] + rest)
        outs, crash = run_impl(ctx, exe, [l])
        m = monitor(l, outs[0]) if outs and outs[0] != "crash" else None
        return m is not None and m[0] == sig
    i = 0
    while i < len(b) and len(b) > 1:
        cand = b[:i] + b[i + 1:]
        if bad(cand):
            b = cand
        else:
            i += 1
    return " ".join([w[0], hx(bytes(b))] + rest)


def check_lines(ctx, exe, tagged, with_model=True, label="", fault="memory-fault"):
    lines = [l for l, _ in tagged]
    outs, crash = run_impl(ctx, exe, lines)
    if crash:
        k, detail = crash
        ctx.violation("text-" + lines[k].split()[0] + "-" + fault,
                      f"C18 text: harness died ({fault}: guard page / sanitizer / assert) on `{lines[k][:200]}`: {detail}",
                      {"mode": "text", "line": lines[k]})
    mouts = ctx.driver(["c18text"], "\n".join(lines) + "\n").splitlines() if with_model else None
    tags = {}
    diffs = []
    for i, (line, tag) in enumerate(tagged):
        o = outs[i] if i < len(outs) else "crash"
        ctx.count()
        tags[tag] = tags.get(tag, 0) + 1
        if o == "crash":
            continue
        m = monitor(line, o)
        if m:
            sig, what = m
            if sig not in ctx.known and not any(v["sig"] == sig for v in ctx.violations):
                sl = shrink_line(ctx, exe, line, sig)
                so, _ = run_impl(ctx, exe, [sl])
                mm = monitor(sl, so[0]) if so and so[0] != "crash" else None
                if mm and mm[0] == sig:
                    line_r, what = sl, mm[1]
                else:
                    line_r = line
                ctx.violation(sig, "C18 text: " + what, {"mode": "text", "line": line_r})
            else:
                ctx.violation(sig, "C18 text: " + what, {"mode": "text", "line": line})
            ctx.notes.setdefault("text_monitor_failures", {}).setdefault(sig, 0)
            ctx.notes["text_monitor_failures"][sig] += 1
        if with_model:
            mo = mouts[i] if i < len(mouts) else None
            if mo != o:
                diffs.append((line, o, mo, m is not None))
            else:
                ctx.validated()
        # non-trivial: something beyond ASCII pass-through happened
        ow = o.split()
        if (line.startswith("u8") and ow[1] != "-1" and int(ow[1]) > 127) or \
           (line.startswith("ta") and int(ow[1]) > 0 and b"xn--" in unhx(ow[2])) or \
           (line.startswith("w8") and ow[1] not in ("-1", "1", "2")) or \
           (line.startswith("u16") and int(ow[1]) > 1):
            ctx.nontrivial(hashlib.sha1(o.encode()).hexdigest()[:12])
    for t, n in tags.items():
        ctx.notes.setdefault("text_cases_by_class" + label, {})[t] = n
    return diffs


def run_text(ctx):
    """returns True when a --replay for the text half was handled"""
    ctx.trusted += ["clang/ASan, mmap guard pages (a store or load past a buffer end faults)",
                    "Python 3 codecs utf-8 (strict / surrogatepass), utf-16-le, punycode as references in the monitors",
                    "idna.c is compiled into the harness with NDEBUG (baseline build configuration); w_source_len of the "
                    "utf16 functions is modelled as the length of the remaining list (NUL-terminated mode = -1)"]
    ctx.assumptions += ["strings and labels are shorter than 2^32 code points (C unsigned counters h, todo)",
                        "uv__malloc succeeds in uv_utf16_to_wtf8 (allocation failure belongs to C16)"]
    exe = ctx.harness("c18_text", ["harness/c18_text.c"], link_lib=True)
    if exe is None:
        return False
    if ctx.replay:
        rp = json.loads(Path(ctx.replay).read_text()).get("replay") or {}
        if rp.get("mode") == "gai":
            gexe = ctx.harness("c18_gai", ["harness/c18_gai.c"], link_lib=True)
            if gexe is not None:
                check_gai(ctx, gexe, [(rp["line"], "replay")])
            return True
        if rp.get("mode") != "text":
            return False
        check_lines(ctx, exe, [(rp["line"], "replay")])
        return True
    rng = ctx.rng.fork()
    corpus = []
    cdir = VERIF / "corpus" / "C18"
    if cdir.exists():
        for f in sorted(cdir.glob("text*.txt")):
            corpus += [(l.strip(), "corpus") for l in f.read_text().splitlines() if l.strip() and not l.startswith("#")]
    tagged = corpus + gen_lines(ctx, rng)
    diffs = check_lines(ctx, exe, tagged)
    ctx.sample({"text_ops": [l for l, _ in tagged[70000:70003]] + [tagged[-1][0]]})
    # validation (not proof): RFC 3492 digits of model and implementation equal Python's punycode codec
    ctx.notes["text_punycode_validation"] = ("every `ta` case with well-formed input was compared with Python's punycode codec "
                                             "(monitor) and with the Lean model (correspondence): validation, not a proof, of "
                                             "digit-for-digit RFC 3492 equality")
    green_diffs = [d for d in diffs if not d[3]]
    if diffs:
        line, o, mo, _ = diffs[0]
        ctx.broken_correspondence("text model (Utf8/Puny/Wtf8.lean) vs src/idna.c",
                                  f"{len(diffs)} differing lines; first: `{line[:300]}` impl `{o[:300]}` model `{(mo or '')[:300]}`")
    proofs_broken = any(k == "proof" for k, _, _ in ctx.broken)
    if (diffs or proofs_broken) and not ctx.violations:
        ctx.log("text: obligation broken; searching with the monitors alone over an enlarged generation")
        srng = SplitMix(ctx.seed + 4242)
        more = gen_lines(ctx, srng, boost=20)
        # bias towards the differing ops
        for line, _, _, _ in diffs[:50]:
            w = line.split()
            if w[0] in ("u8", "ta", "w8"):
                b = unhx(w[1])
                for x in REPS_FULL:
                    more.append((" ".join([w[0], hx(b + bytes([x]))] + w[2:]), "search"))
                    if len(b) > 1:
                        more.append((" ".join([w[0], hx(b[:-1] + bytes([x]))] + w[2:]), "search"))
        check_lines(ctx, exe, more, with_model=False, label="_search")
        ctx.notes["search"] = f"text: {len(more)} extra cases run against the monitors after an obligation broke"
    # assert-enabled build of idna.c (the library variants vlib builds keep assertions on): the valid
    # conversions must not trip an assertion (U+10FFFF used to)
    exa = ctx.harness("c18_text_asserts", ["harness/c18_text.c"], link_lib=True, extra=["-DC18T_ASSERTS"])
    if exa is not None:
        sub = [(l, t) for l, t in tagged if t in ("corpus", "w8-roundtrip", "u16-alloc", "u16-nul", "ta-host")]
        sub.append(("w8 f48fbfbf", "assert"))
        sub.append(("w8 41f48fbfbff4808080", "assert"))
        check_lines(ctx, exa, sub, with_model=False, label="_assert_build", fault="assert-abort")
    run_gai(ctx, rng.fork())
    ctx.cov["rule_text"] = ("utf8: all byte strings of length <= 2, all strings of length 3 (and 4; quick: 13 of the 28) over 28 "
                            "class representatives, boundary scalars, CESU surrogates, overlongs, every truncation; toascii: the "
                            "same short strings, host names built from ASCII / non-ASCII / mixed / empty / long labels with the 4 "
                            "dot forms, every destination size 0..needed+2, mutated bytes; utf16/wtf8: all unit lists of length "
                            "<= 3 over 14 surrogate-class representatives, random longer lists, every target size. Non-trivial = "
                            "a multi-byte code point decoded / an xn-- label produced / a multi-unit conversion; distinct by "
                            "output line")
    return False
