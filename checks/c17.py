"""C17 — fs_event (src/unix/linux.c inotify part) and fs_poll (src/fs-poll.c).
Proof: UvModel.Props.C17 over the models UvModel.FsPoll / UvModel.FsEvent.  Tie B: harness/c17_sim.c
runs the real library; every non-comment output line is diffed against `uvdriver c17poll|c17event`.
Monitors (independent of the model) evaluate the property text on the harness log."""
import itertools
from vlib import *

MANIFEST = {
 "text": "Lean 4 theorems over executable models of src/fs-poll.c (context chain, poll_cb/timer_cb/timer_close_cb, "
         "start/stop/close at every phase, all callback scripts, all stat results and clocks) and of the inotify dispatch "
         "of src/unix/linux.c (shared watcher lists, detached iteration, deferred free, start/stop/close from inside "
         "callbacks): fs_poll callbacks happen exactly when two consecutive results differ and chain; a superseded or "
         "stopped context never calls back, never stats again and always retires; the handle's close_cb waits for every "
         "context; every inotify record reaches each watcher of its wd exactly once unless stopped before its turn, with "
         "UV_CHANGE/UV_RENAME from the mask; the watcher list is freed exactly when empty and not iterating. The models "
         "are tied to the working tree by running the real library with the stat results / inotify records scripted and "
         "diffing every line, plus independent monitors, plus a real-kernel inotify mode on a scratch directory.",
 "note": "Trusted: Lean kernel; the harness (link-time --wrap of uv_fs_stat/uv_timer_init/uv_timer_start/uv_close/"
         "uv__statx/uv_async_send to observe and hold; inotify_add_watch/inotify_rm_watch/read defined in the harness "
         "for scripted records; virtual clock); clang/ASan/LSan. Not modelled: which inotify records the kernel produces "
         "for which change (monitor only, real-kernel mode), ENOMEM paths (C16), uv__inotify_fork, st_flags/st_gen "
         "(always 0 on Linux), nested uv_run from a callback.",
 "design": "DESIGN.md §3 C17",
 "technique": "Lean 4 proof over executable model + correspondence (whole-library, link-time wrapping, scripted stat/inotify) + monitors",
}

WRAP = ["-Wl,--wrap=uv_fs_stat,--wrap=uv_timer_init,--wrap=uv_timer_start,--wrap=uv_close,--wrap=uv__statx,--wrap=uv_async_send"]
NH = 4
ZERO = ",".join(["0"] * 14)


class Bad(Exception):
    def __init__(self, sig, what):
        super().__init__(what)
        self.sig, self.what = sig, what


def crash(prefix, rc, err):
    """harness died: sanitizer report / assert / signal / timeout"""
    err = err or ""
    kind = "asan" if ("AddressSanitizer" in err or "LeakSanitizer" in err) else ("timeout" if rc == -999 else "abort")
    ls = err.strip().splitlines()
    k = next((i for i, x in enumerate(ls) if "ERROR:" in x or "Assertion" in x or "runtime error" in x), max(0, len(ls) - 10))
    return Bad(f"{prefix}-{kind}", f"harness exited {rc}: " + " | ".join(x.strip() for x in ls[k:k + 9])[:1500])


# ============================================================================= fs_poll: generation
BASE = [5, 6, 7, 100, 101, 102, 10, 33188, 1000, 1000, 42, 3]


def gen_stat(rng, st):
    """next scripted result given the generator's idea of the file: mostly unchanged, else one field changes"""
    r = rng.below(10)
    if r < 4:
        return st
    st = list(st)
    if r < 9:
        i = rng.below(12)
        st[i] = st[i] + 1 if st[i] < 60000 else st[i] - 1
    else:
        for i in range(12):
            if rng.chance(1, 3):
                st[i] += 1
    return st


def gen_script_ops(rng, bias):
    ops = []
    for _ in range(rng.range(1, 3)):
        r = rng.below(10)
        h = rng.below(3)
        if r < 4:
            ops.append(f"stop:{h}")
        elif r < 8:
            ops.append(f"start:{h}:{rng.below(4)}:{rng.below(4)}:{rng.choice([0, 1, 7, 50, 100])}")
        else:
            ops.append(f"close:{h}")
    if bias == "restart" and rng.chance(1, 2):
        h = rng.below(2)
        ops = [f"stop:{h}", f"start:{h}:{rng.below(4)}:{rng.below(4)}:{rng.choice([1, 50])}"]
    return ";".join(ops)


def gen_poll_sequence_case(rng):
    """One live context driven through whole poll cycles with a chosen *class sequence* of results:
    ok(S) -> error -> ok(S) (recovery to unchanged metadata), e1 -> e2 -> e1, ok -> same ok,
    error -> ok(new), first-result error, and random mixes of these."""
    lines = []
    if rng.chance(1, 3):
        lines.append(f"script {rng.below(4)} {gen_script_ops(rng, None)}")
    h, iv = rng.below(3), rng.choice([1, 50, 100])
    S = list(BASE)
    S2 = list(BASE)
    S2[rng.below(12)] += 1
    pats = [["S", "E", "S"], ["S", "S", "E", "S"], ["E", "S", "E", "S"], ["E1", "E2", "E1"], ["S", "E1", "E2", "S"],
            ["S", "S", "S"], ["E", "N"], ["S", "E", "N"], ["S", "E", "E", "S"], ["E", "E", "S", "S"], ["S", "N", "S"]]
    pat = list(rng.choice(pats))
    for _ in range(rng.range(0, 4)):
        pat.append(rng.choice(["S", "S", "E", "E1", "E2", "N"]))
    lines.append(f"start {h} {rng.below(4)} {rng.below(4)} {iv}")
    first = True
    for c in pat:
        if not first:
            lines += [f"advance {rng.choice([iv, iv, iv + 3, 2 * iv])}", "run"]
        first = False
        if c == "S":
            lines.append("release 0 " + ",".join(map(str, S)))
        elif c == "N":
            lines.append("release 0 " + ",".join(map(str, S2)))
        else:
            lines.append(f"release {dict(E=-2, E1=-2, E2=-13)[c]}")
        lines.append("run")
        if rng.chance(1, 12):
            lines.append(rng.choice([f"getpath {h}", f"start {h} 0 0 7", f"stop {(h + 1) % 3}", "advance 0"]))
    if rng.chance(1, 2):
        lines += [rng.choice([f"stop {h}", f"close {h}"]), "run"]
    lines.append("end")
    return lines


def gen_poll_case(rng, nsteps, bias=None):
    if bias != "restart" and rng.chance(1, 4):
        return gen_poll_sequence_case(rng)
    lines = []
    for k in range(rng.range(0, 6)):
        if rng.chance(2, 3):
            lines.append(f"script {k} {gen_script_ops(rng, bias)}")
    st = list(BASE)
    i = 0
    while i < nsteps:
        r = rng.below(100)
        h = rng.below(3) if rng.chance(9, 10) else 3
        if r < 4:
            # error exit of uv_fs_poll_start: allocation number k fails (k beyond the last one = plain start)
            lines.append(f"startfail {rng.below(3)} {h} {rng.below(4)} {rng.below(4)} {rng.choice([1, 50, 100])}")
            if rng.chance(1, 2):
                lines.append(rng.choice([f"start {h} {rng.below(4)} {rng.below(4)} 50", "run", f"close {h}", f"getpath {h}"]))
        elif r < 14:
            lines.append(f"start {h} {rng.below(4)} {rng.below(4)} {rng.choice([0, 1, 7, 50, 100, 100])}")
        elif r < 18:
            # one whole poll cycle: timer expires, stat is submitted, completes with the next result
            st = gen_stat(rng, st)
            lines += [f"advance {rng.choice([100, 100, 130])}", "run",
                      rng.choice(["release 0 " + ",".join(map(str, st))] * 5 + ["release -2"]), "run"]
        elif r < 26:
            lines.append(f"stop {h}")
        elif r < 29:
            lines.append(f"close {h}")
        elif r < 33:
            lines.append(f"getpath {h}")
        elif r < 50:
            lines.append(f"advance {rng.choice([0, 1, 3, 7, 49, 50, 100, 130, 1000])}")
        elif r < 72:
            if rng.chance(1, 6):
                lines.append(f"release {rng.choice([-2, -2, -13, -20])}")
            else:
                st = gen_stat(rng, st)
                lines.append("release 0 " + ",".join(map(str, st)))
        elif r < 92:
            lines.append("run")
        else:
            # the L3 shape: restart (other path / other callback) while the stat is in flight
            hh = rng.below(2)
            lines += [f"stop {hh}", f"start {hh} {rng.below(4)} {rng.below(4)} {rng.choice([1, 50, 100])}"]
            i += 1
        i += 1
    # drain a little so that late effects show
    for _ in range(rng.range(0, 4)):
        lines += [rng.choice(["release 0 " + ",".join(map(str, st)), "release -2", "advance 100"]), "run"]
    lines.append("end")
    return lines


# ============================================================================= fs_poll: monitor
def pdiffer(a, b):
    """two consecutive poll results differ in status or metadata"""
    return a != b


def monitor_poll(case, rc, out, err):
    """Property text evaluated on the harness log.  Raises Bad(sig, what)."""
    lines = out.splitlines()
    if rc != 0 and lines:
        lines = lines[:-1]          # the last line may be cut
    cur = {}            # handle -> live context id
    sess = {}           # ctx -> dict(h, cb, path, iv, last, lastok, due)
    pending = {h: set() for h in range(NH)}     # contexts not yet retired (timer_close_cb not run)
    closed = set()
    now = 0
    ev = None           # current event block (kind, id)
    last_op = None
    failing = None
    expect_cb = None    # inside statdone: expected callback text or False
    seen_cb = False
    for ln, l in enumerate(lines):
        w = l.split()
        if not w:
            continue
        if l.startswith("#flagfail"):
            raise Bad("fspoll-timer-flags", f"internal poll timer armed with wrong flags: {l}")
        if l.startswith("#harness-failure"):
            raise Bad("fspoll-harness-failure", l)
        if l.startswith("#walk-timers"):
            if int(w[1]) != 0:
                raise Bad("fspoll-timer-visible", "uv_walk shows an internal poll timer")
            continue
        if l.startswith("#"):
            continue
        if l.startswith("#walk "):
            continue
        if w[0] == "op":
            last_op = w[1:]
            failing = None
            if w[1] == "startfail":
                failing = int(w[2])
                last_op = ["start"] + w[3:]
            if w[1] == "advance":
                now += int(w[2])
            if w[1] in ("stop", "close"):
                cur[int(w[2])] = None          # from the moment the call is made
            continue
        if w[0] == "stat":
            c, p = int(w[1][1:]), int(w[2][1:])
            if last_op and last_op[0] == "start" and c not in sess:
                h = int(last_op[1])
                started_ctx = c
                if cur.get(h) is not None:
                    raise Bad("fspoll-start-while-active", f"line {ln}: uv_fs_poll_start on an active handle created a context")
                if p != int(last_op[3]):
                    raise Bad("fspoll-wrong-path", f"line {ln}: stat of p{p}, started on p{last_op[3]}")
                sess[c] = {"h": h, "cb": int(last_op[2]), "path": p, "iv": int(last_op[4]) or 1, "last": None, "lastok": ZERO, "due": None}
                cur[h] = c
                pending[h].add(c)
            else:
                s = sess.get(c)
                if s is None or ev != ("timerfire", c):
                    raise Bad("fspoll-unexpected-stat", f"line {ln}: {l} outside start / its timer callback")
                if cur.get(s["h"]) != c:
                    raise Bad("fspoll-stale-context-stat", f"line {ln}: context c{c} (stopped or superseded) polls p{p} again")
                if p != s["path"]:
                    raise Bad("fspoll-wrong-path", f"line {ln}: context c{c} stats p{p}, was started on p{s['path']}")
            last_op = None
            continue
        if w[0] == "ret":
            if last_op and last_op[0] in ("stop", "close"):
                h = int(last_op[1])
                cur[h] = None
                if w[2] != "a=0":
                    raise Bad("fspoll-active-after-stop", f"line {ln}: handle active after {last_op[0]}")
            if last_op and last_op[0] == "start":
                h = int(last_op[1])
                if failing is not None and w[1] == "-12":
                    # a failed start leaves nothing behind: handle inactive, no context, no request
                    if w[2] != "a=0" or cur.get(h) is not None:
                        raise Bad("fspoll-failed-start-left-state", f"line {ln}: after UV_ENOMEM: {l}, live context {cur.get(h)}")
                elif w[1] != "0" or w[2] != "a=1":
                    raise Bad("fspoll-start-failed", f"line {ln}: {l}")
            continue
        if w[0] == "path":
            h = int(last_op[1])
            want = f"path 0 p{sess[cur[h]]['path']}" if cur.get(h) is not None else "path -22 -"
            if l != want:
                raise Bad("fspoll-getpath", f"line {ln}: getpath gave `{l}`, expected `{want}`")
            continue
        if w[0] == "ev":
            kind, ident = w[1], int(w[2][1:])
            ev = (kind, ident)
            if kind == "closecb":
                if pending[ident]:
                    raise Bad("fspoll-close-before-ctx-retired",
                              f"line {ln}: close_cb of h{ident} while contexts {sorted(pending[ident])} still own memory")
                closed.add(ident)
                continue
            s = sess.get(ident)
            if s is None:
                raise Bad("fspoll-unknown-context", f"line {ln}: {l}")
            if s["h"] in closed:
                raise Bad("fspoll-event-after-close-cb", f"line {ln}: {l} after close_cb of h{s['h']}")
            if kind == "statdone":
                res = ("ok", w[4]) if w[3] == "0" else ("err", int(w[3]))
                live = cur.get(s["h"]) == ident
                seen_cb = False
                expect_cb = False
                if live:
                    rep = (s["last"] is None and res[0] == "err") or (s["last"] is not None and pdiffer(s["last"], res))
                    if rep:
                        expect_cb = (f"cb h{s['h']} f{s['cb']} {0 if res[0] == 'ok' else res[1]} prev={s['lastok']} "
                                     f"curr={res[1] if res[0] == 'ok' else ZERO}")
                    s["last"] = res
                    if res[0] == "ok":
                        s["lastok"] = res[1]
            elif kind == "timerfire":
                if s["due"] is None or now < s["due"]:
                    raise Bad("fspoll-timer-early", f"line {ln}: timer of c{ident} fired at {now}, due {s['due']}")
                s["due"] = None
            elif kind == "timerclosed":
                pending[s["h"]].discard(ident)
            continue
        if w[0] == "evend":
            if ev and ev[0] == "statdone" and expect_cb and not seen_cb:
                raise Bad("fspoll-missing-callback", f"line {ln}: results differ but no callback: expected `{expect_cb}`")
            ev = None
            expect_cb = None
            continue
        if w[0] == "cb":
            if not ev or ev[0] != "statdone":
                raise Bad("fspoll-callback-outside-poll", f"line {ln}: {l}")
            c = ev[1]
            s = sess[c]
            h = int(w[1][1:])
            if h != s["h"] or cur.get(h) != c or seen_cb or expect_cb is None:
                raise Bad("fspoll-stale-context-callback",
                          f"line {ln}: callback `{l[:60]}` made by context c{c} after stop/restart (or twice)")
            if expect_cb is False:
                raise Bad("fspoll-spurious-callback", f"line {ln}: callback although the two results do not differ: {l}")
            if l != expect_cb:
                raise Bad("fspoll-chain-mismatch", f"line {ln}: got `{l}` expected `{expect_cb}`")
            seen_cb = True
            continue
        if w[0] == "arm":
            c, n = int(w[1][1:]), int(w[2])
            s = sess.get(c)
            if s is None or ev != ("statdone", c):
                raise Bad("fspoll-unexpected-arm", f"line {ln}: {l}")
            if cur.get(s["h"]) != c:
                raise Bad("fspoll-stale-context-rearm", f"line {ln}: context c{c} (stopped or superseded) re-arms its timer")
            if not (1 <= n <= s["iv"]):
                raise Bad("fspoll-interval", f"line {ln}: re-arm {n} outside 1..{s['iv']}")
            s["due"] = now + n
            continue
        if w[0] == "closetimer":
            c = int(w[1][1:])
            s = sess.get(c)
            if s is None:
                raise Bad("fspoll-unknown-context", f"line {ln}: {l}")
            if cur.get(s["h"]) == c:
                raise Bad("fspoll-live-context-closed", f"line {ln}: timer of the live context c{c} closed")
            s["due"] = None
            continue
        if w[0] == "loopclose":
            if l != "loopclose 0 open=0":
                raise Bad("fspoll-loop-not-closed", f"teardown: {l}")
            continue
        if w[0] in ("misuse", "script", "bad-op"):
            if w[0] == "bad-op":
                raise Bad("fspoll-bad-op", f"line {ln}: generator produced an op the harness rejects")
            continue
        raise Bad("fspoll-unparsed", f"line {ln}: {l}")
    if rc != 0:
        raise crash("fspoll", rc, err)     # the log up to the crash shows no property violation by itself
    if not lines or not lines[-1].startswith("loopclose"):
        raise Bad("fspoll-truncated", "no loopclose line")


def model_input(out):
    inside = False
    res = []
    for l in out.splitlines():
        if l.startswith("ev "):
            inside = True
            res.append(l)
        elif l == "evend":
            inside = False
        elif not inside and (l.startswith("op ") or l.startswith("script ")):
            res.append(l)
    return "\n".join(res) + "\n"


def poll_features(out):
    f = set()
    inflight = set()
    last = None
    for l in out.splitlines():
        w = l.split()
        if not w:
            continue
        if w[0] == "stat":
            inflight.add(w[1])
        if w[0] == "ev" and w[1] == "statdone":
            inflight.discard(w[2])
        if w[0] == "op" and w[1] == "start" and last and last[0] == "stop" and last[1] == w[2] and inflight:
            f.add("restart-in-flight")
        if w[0] == "op" and w[1] in ("start", "stop", "close"):
            last = w[1:]
        if w[0] == "ret" and w[1] == "-12":
            f.add("start-enomem")
        if w[0] == "cb":
            f.add("cb-err" if w[3] != "0" else "cb-ok")
            if w[3] == "0" and w[4][5:] == w[5][5:] and w[4][5:] != ZERO:
                f.add("cb-recovery-same-stat")
        if w[0] == "op" and w[1] == "close" and inflight:
            f.add("close-in-flight")
    return f


def check_poll_case(ctx, exe, case, do_model=True):
    text = "\n".join(case) + "\n"
    rc, out, err = ctx.run(exe, ["poll"], text=text, timeout=60)
    try:
        monitor_poll(case, rc, out, err)
    except Bad as b:
        return b, out
    if not do_model:
        return None, out
    impl = [l for l in out.splitlines() if not l.startswith("#")]
    mod = ctx.driver(["c17poll"], model_input(out)).splitlines()
    if impl != mod:
        k = next((i for i in range(min(len(impl), len(mod))) if impl[i] != mod[i]), min(len(impl), len(mod)))
        return ("diff", f"line {k}: impl `{impl[k] if k < len(impl) else None}` model `{mod[k] if k < len(mod) else None}`"), out
    return None, out



# ============================================================================= fs_event (scripted records)
MASKS = [2, 4, 6, 0x100, 0x200, 0x400, 0x800, 0x40, 0x80, 0x102, 0x40000100, 0x8000, 0x40000002, 0x40000004, 0x204]
CHANGE_BITS = 0x2 | 0x4
RENAME_BITS = 0x100 | 0x200 | 0x400 | 0x800 | 0x40 | 0x80


# change classes the property names -> inotify bits that must be registered for them
NEEDED_MASK = {"content change (IN_MODIFY)": 0x2, "attribute change (IN_ATTRIB)": 0x4, "create (IN_CREATE)": 0x100,
               "delete (IN_DELETE)": 0x200, "delete of the watched path (IN_DELETE_SELF)": 0x400,
               "move of the watched path (IN_MOVE_SELF)": 0x800, "move out (IN_MOVED_FROM)": 0x40, "move in (IN_MOVED_TO)": 0x80}


def check_mask(mask, ln):
    missing = [k for k, b in NEEDED_MASK.items() if not mask & b]
    if missing:
        raise Bad("fsevent-watch-mask-missing-class",
                  f"line {ln}: uv_fs_event_start registers inotify mask {mask:#x}: never reported: {', '.join(missing)}")


def gen_ev_script_ops(rng):
    ops = []
    for _ in range(rng.range(1, 3)):
        r = rng.below(10)
        h = rng.below(NH)
        if r < 5:
            ops.append(f"stop:{h}")
        elif r < 8:
            ops.append(f"start:{h}:{rng.below(4)}:{rng.range(1, 3)}:{rng.below(2)}")
        else:
            ops.append(f"close:{h}")
    return ";".join(ops)


def gen_event_case(rng, nsteps, bias=None):
    lines = []
    for k in range(rng.range(0, 8)):
        if rng.chance(2, 3):
            lines.append(f"script {k} {gen_ev_script_ops(rng)}")
    for _ in range(nsteps):
        r = rng.below(100)
        h = rng.below(NH)
        if r < 5:
            lines.append(f"startfail {rng.below(2)} {h} {rng.below(4)} {rng.range(1, 3)} {rng.below(2)}")
            if rng.chance(1, 2):
                lines.append(rng.choice([f"start {h} {rng.below(4)} {rng.range(1, 3)} 0", f"stop {h}", f"close {h}"]))
        elif r < 38:
            wd = rng.range(1, 3) if rng.chance(14, 15) else 0
            if bias == "shared" and rng.chance(1, 2):
                wd = 1
            lines.append(f"start {h} {rng.below(4)} {wd} {rng.below(2)}")
        elif r < 48:
            lines.append(f"stop {h}")
        elif r < 52:
            lines.append(f"close {h}")
        elif r < 56:
            lines.append("run")
        else:
            recs = []
            if rng.chance(1, 4):
                # one read() batch of mixed kinds for the same watch: create/delete/move next to modify/attrib
                wd = rng.range(1, 3)
                ks = [rng.choice([0x100, 0x200, 0x80, 0x40, 0x800, 0x400]), rng.choice([2, 4, 6])]
                if rng.chance(1, 2):
                    ks.reverse()
                if rng.chance(1, 2):
                    ks.append(rng.choice(MASKS))
                lines.append("dispatch " + " ".join(f"{wd}:{m}:{rng.choice(['-', 'n1', 'n2'])}" for m in ks))
                continue
            for i in range(rng.range(1, 4)):
                if i and rng.chance(1, 4):
                    recs.append("/")
                recs.append(f"{rng.range(1, 4)}:{rng.choice(MASKS)}:{rng.choice(['-', '-', 'n1', 'n2'])}")
            lines.append("dispatch " + " ".join(recs))
    lines.append("end")
    return lines


def monitor_event(case, rc, out, err):
    """A handle started on the record's wd *during* that record's dispatch is not owed the record, but the
    property does not forbid delivering it either: attribution of callbacks to records is tried without
    and then with such optional deliveries; the log is accepted if either reading satisfies the property."""
    try:
        monitor_event1(case, rc, out, err, False)
    except Bad as first:
        if first.sig in ("fsevent-asan", "fsevent-abort", "fsevent-timeout"):
            raise
        try:
            monitor_event1(case, rc, out, err, True)
        except Bad:
            raise first


def monitor_event1(case, rc, out, err, use_optional):
    lines = out.splitlines()
    if rc != 0:
        raise crash("fsevent", rc, err)
    watch = {h: None for h in range(NH)}
    aliases = {}                 # wd -> basenames used to start handles on it
    last_op = None
    recs = None
    st = {"idx": -1, "pending": set(), "optional": set(), "delivered": set(), "stopped": set()}
    ever_stopped = set()
    pending_watch = None

    def close_record(ln):
        if 0 <= st["idx"] < len(recs):
            wd = recs[st["idx"]][0]
            lost = [h for h in st["pending"] - st["delivered"] if watch[h] == wd and h not in st["stopped"]]
            if lost:
                raise Bad("fsevent-lost-event", f"line {ln}: record {recs[st['idx']]} never reached watching handle(s) {sorted(lost)}")

    def next_record(ln):
        close_record(ln)
        st["idx"] += 1
        st["delivered"], st["stopped"], st["optional"] = set(), set(), set()
        st["pending"] = {h for h in range(NH) if st["idx"] < len(recs) and watch[h] == recs[st["idx"]][0]}

    for ln, l in enumerate(lines):
        w = l.split()
        if not w or l.startswith("#closecb") or l.startswith("#ran") or l.startswith("#walk"):
            continue
        if l.startswith("#harness-failure"):
            raise Bad("fsevent-harness-failure", l)
        if w[0] == "addwatch":
            check_mask(int(w[2][5:]), ln)
            pending_watch = int(w[1]) if int(w[1]) > 0 else None
            continue
        if w[0] == "op":
            last_op = w[1:]
            if w[1] == "startfail":
                last_op = ["start"] + w[3:]
            if w[1] in ("stop", "close"):
                h = int(w[2])
                if recs is not None:
                    st["stopped"].add(h)
                    ever_stopped.add(h)
                watch[h] = None
            elif w[1] == "dispatch":
                recs = []
                for x in w[2:]:
                    if x != "/":
                        a, b, c = x.split(":")
                        recs.append((int(a), int(b), c))
                st["idx"] = -1
                ever_stopped = set()
                next_record(ln)
            continue
        if w[0] == "ret":
            if last_op and last_op[0] == "start" and w[1] != "0":
                # failed start: handle not active, and a kernel watch created for it alone must be gone again
                if w[2] != "a=0" and w[1] != "-22":
                    raise Bad("fsevent-failed-start-left-state", f"line {ln}: {l}")
                if pending_watch is not None and not any(v == pending_watch for v in watch.values()):
                    raise Bad("fsevent-failed-start-leaks-watch", f"line {ln}: inotify watch {pending_watch} left without any handle")
            pending_watch = None
            if last_op and last_op[0] == "start" and w[1] == "0":
                h, wd = int(last_op[1]), int(last_op[3])
                watch[h] = wd
                aliases.setdefault(wd, set()).add(f"w{wd}_{last_op[4]}")
                if use_optional and recs is not None and 0 <= st["idx"] < len(recs) and recs[st["idx"]][0] == wd:
                    st["optional"].add(h)
                    st["stopped"].discard(h)
            continue
        if w[0] == "cb":
            if recs is None:
                raise Bad("fsevent-callback-outside-dispatch", f"line {ln}: {l}")
            h = int(w[1][1:])
            name, evs = w[3][5:], int(w[4][3:])
            while True:
                i = st["idx"]
                if i >= len(recs):
                    sig = "fsevent-callback-after-stop" if h in ever_stopped and watch[h] is None else "fsevent-spurious-callback"
                    raise Bad(sig, f"line {ln}: `{l}` corresponds to no record for a handle watching it (handle stopped: {h in ever_stopped})")
                wd, mask, rname = recs[i]
                if h in (st["pending"] | st["optional"]) - st["delivered"] and watch[h] == wd and h not in st["stopped"]:
                    need = (2 if mask & CHANGE_BITS else 0) | (1 if mask & RENAME_BITS else 0)
                    okname = (name == rname) if rname != "-" else (name in aliases.get(wd, set()))
                    # per record, independent of its predecessors: UV_CHANGE iff an ATTRIB/MODIFY bit; UV_RENAME
                    # required for create/delete/move bits, allowed for any other bit (interpretation (v):
                    # IN_ISDIR etc.), forbidden when the mask has ATTRIB/MODIFY bits only
                    other = (mask & 0xFFFFFFFF) & ~CHANGE_BITS
                    okev = ((evs & 2) != 0) == ((mask & CHANGE_BITS) != 0) and (evs & need) == need \
                        and (other != 0 or (evs & 1) == 0) and evs in (1, 2, 3)
                    if okname and okev:
                        st["delivered"].add(h)
                        break
                    if okname:
                        raise Bad("fsevent-wrong-events", f"line {ln}: `{l}` for this record's mask {mask:#x}: UV_CHANGE "
                                  f"{'required' if mask & CHANGE_BITS else 'forbidden'}, UV_RENAME "
                                  f"{'required' if mask & RENAME_BITS else ('allowed' if other else 'forbidden')}")
                next_record(ln)
            continue
        if w[0] == "dispatched":
            while st["idx"] < len(recs):
                next_record(ln)
            recs = None
            continue
        if w[0] == "rmwatch":
            wd = int(w[1])
            if pending_watch == wd:
                pending_watch = None
            still = [h for h in range(NH) if watch[h] == wd]
            if still:
                raise Bad("fsevent-watch-removed-while-watched", f"line {ln}: inotify_rm_watch({wd}) while handles {still} watch it")
            continue
        if w[0] == "loopclose":
            if l != "loopclose 0 open=0":
                raise Bad("fsevent-loop-not-closed", f"teardown: {l}")
            continue
        if w[0] == "bad-op":
            raise Bad("fsevent-bad-op", f"line {ln}: generator produced an op the harness rejects")
        if w[0] in ("misuse", "script", "noinotify"):
            continue
        raise Bad("fsevent-unparsed", f"line {ln}: {l}")
    if not lines or not lines[-1].startswith("loopclose"):
        raise Bad("fsevent-truncated", "no loopclose line")


def model_input_event(out):
    inside = False
    res = []
    for l in out.splitlines():
        if l.startswith("op dispatch"):
            inside = True
            res.append(l)
        elif l in ("dispatched", "noinotify"):
            inside = False
        elif not inside and (l.startswith("op ") or l.startswith("script ")):
            res.append(l)
    return "\n".join(res) + "\n"


def event_features(out):
    f = set()
    watch = {}
    last = None
    indisp = False
    for l in out.splitlines():
        w = l.split()
        if not w:
            continue
        if w[0] == "op":
            last = w[1:]
            if w[1] == "dispatch":
                indisp = True
                wds = [int(x.split(":")[0]) for x in w[2:] if x != "/"]
                for wd in wds:
                    if sum(1 for v in watch.values() if v == wd) >= 2:
                        f.add("shared-wd")
            if w[1] in ("stop", "close"):
                if indisp and watch.get(int(w[2])):
                    f.add("stop-in-callback")
                watch[int(w[2])] = None
        if w[0] == "ret" and last and last[0] == "start" and w[1] == "0":
            watch[int(last[1])] = int(last[3])
            if indisp:
                f.add("start-in-callback")
        if w[0] == "dispatched":
            indisp = False
        if w[0] == "ret" and w[1] == "-12":
            f.add("start-enomem")
        if w[0] == "ret" and w[1] == "-2":
            f.add("start-add-watch-fails")
        if w[0] == "rmwatch":
            f.add("list-freed")
    return f


def check_event_case(ctx, exe, case, do_model=True):
    text = "\n".join(case) + "\n"
    rc, out, err = ctx.run(exe, ["event"], text=text, timeout=60)
    try:
        monitor_event(case, rc, out, err)
    except Bad as b:
        return b, out
    return None, out


# ============================================================================= fs_event (real kernel, monitors only)
def gen_real_case(rng, nsteps):
    lines = ["create f1", "create f2", "mkdir d1", "create d1/g1"]
    files = {"f1", "f2", "d1/g1"}          # existing regular files
    watched_files = ["f1", "f2", "d1/g1"]
    gone = set()
    for k in range(rng.range(0, 6)):
        if rng.chance(1, 2):
            ops = []
            for _ in range(rng.range(1, 2)):
                h = rng.below(NH)
                ops.append(rng.choice([f"stop:{h}", f"stop:{h}", f"close:{h}", f"startp:{h}:{rng.below(4)}:{rng.choice(['.', 'f1', 'd1'])}"]))
            lines.append(f"script {k} " + ";".join(ops))
    extra = 0
    for _ in range(nsteps):
        r = rng.below(100)
        h = rng.below(NH)
        if r < 30:
            cand = [p for p in [".", ".", "f1", "f1", "f2", "d1", "d1/g1"] if p not in gone]
            lines.append(f"startp {h} {rng.below(4)} {rng.choice(cand)}")
        elif r < 38:
            lines.append(f"stop {h}")
        elif r < 41:
            lines.append(f"close {h}")
        else:
            k = rng.below(10)
            live = sorted(files)
            if k < 4 and live and rng.chance(1, 3):
                # two changes of different kinds queued before the loop reads the inotify fd (one read batch)
                extra += 1
                name = f"{rng.choice(['', 'd1/'])}n{extra}"
                pair = [f"create {name}", f"{rng.choice(['write', 'chmod'])} {rng.choice(live)}"]
                files.add(name)
                if rng.chance(1, 2):
                    pair.reverse()
                if rng.chance(1, 2):
                    pair.append(f"write {name}")
                lines += pair + ["settle"]
            elif k < 4 and live:
                lines += [f"{rng.choice(['write', 'chmod'])} {rng.choice(live)}", "settle"]
            elif k < 6:
                extra += 1
                name = f"{rng.choice(['', 'd1/'])}n{extra}"
                files.add(name)
                lines += [f"create {name}", "settle"]
            elif k < 8:
                cand = [f for f in live if f.split('/')[-1].startswith("n")]
                if cand:
                    f = rng.choice(cand)
                    files.discard(f)
                    if rng.chance(1, 2):
                        lines += [f"unlink {f}", "settle"]
                    else:
                        extra += 1
                        g = f"{rng.choice(['', 'd1/'])}n{extra}"
                        files.add(g)
                        lines += [f"rename {f} {g}", "settle"]
            elif k < 9:
                extra += 1
                lines += [f"mkdir n{extra}", "settle", f"rmdir n{extra}", "settle"]
            else:
                f = "f2"
                if f in files:
                    files.discard(f)
                    gone.add(f)
                    lines += [f"unlink {f}", "settle"]
    # finale: changes of the watched paths *themselves*, with several handles on them and on their parent
    targets = [p for p in ["f1", "d1", "d1/g1"] if p not in gone]
    for tgt in rng.choice([["f1"], ["d1"], ["f1", "d1"], ["d1/g1"], ["d1/g1", "d1"]]):
        if tgt not in targets:
            continue
        hs = list(range(NH))
        for h in hs:
            lines.append(f"stop {h}")
        parent = "d1" if tgt.startswith("d1/") else "."
        lines += [f"startp 0 0 {tgt}", f"startp 1 1 {tgt}", f"startp 2 2 {parent}"]
        if rng.chance(1, 2):
            lines.append(f"startp 3 3 {parent}")
        kind = rng.choice(["chmod", "rename", "unlink", "chmod+rename", "moveout"])
        if tgt == "d1" and kind in ("unlink", "moveout"):
            kind = "rename"
        if "chmod" in kind:
            lines += [f"chmod {tgt}", "settle"]
        if "rename" in kind:
            lines += [f"rename {tgt} {tgt}r", "settle"]
        elif kind == "unlink":
            lines += [f"unlink {tgt}", "settle"]
        elif kind == "moveout":
            dst = "moved" if tgt.startswith("d1/") else "d1/moved"
            lines += [f"rename {tgt} {dst}", "settle"]
        if tgt == "d1" and "rename" in kind:
            break                                   # paths below d1 have changed their names
    lines.append("end")
    return lines


SELF_OWED = [0]


def monitor_real(case, rc, out, err):
    lines = out.splitlines()
    if rc != 0:
        raise crash("fsevent-real", rc, err)
    watch = {h: None for h in range(NH)}
    orphan = set()
    stopped_since = set()
    last_op = None
    owed = []            # (h, name, needbits, text) since the last settle
    got = []             # (h, name, ev)
    kinds = {}           # reported name -> classes of the changes since the last settle (None = unconstrained)
    dirs = {"d1"}

    def dname(p):
        return p.rsplit("/", 1)[0] if "/" in p else "."

    def base(p):
        return p.rsplit("/", 1)[-1]

    for ln, l in enumerate(lines):
        w = l.split()
        if not w or l.startswith("#"):
            if l.startswith("#settled"):
                for (h, name, need, text) in owed:
                    if watch[h] is None or h in stopped_since:
                        continue
                    if not any(gh == h and gn == name and (ge & need) == need for gh, gn, ge in got):
                        raise Bad("fsevent-real-lost-event", f"line {ln}: `{text}` not reported to watching handle h{h} "
                                                             f"as name={name} with event bits {need}; it got {[g for g in got if g[0] == h]}")
                # every callback's class, per reported name: content/attribute changes of a regular file are
                # UV_CHANGE only, create/delete/move are UV_RENAME only, whatever else happened in the batch
                for gh, gn, ge in got:
                    ks = kinds.get(gn)
                    if ks and len(ks) == 1 and None not in ks and ge != next(iter(ks)):
                        raise Bad("fsevent-real-wrong-events", f"line {ln}: h{gh} got name={gn} ev={ge}; the only changes of "
                                  f"{gn} since the last settle are of class {next(iter(ks))} (2=UV_CHANGE, 1=UV_RENAME)")
                owed, got, kinds = [], [], {}
                stopped_since = set()
            continue
        if w[0] == "op":
            last_op = w[1:]
            if w[1] in ("stop", "close"):
                watch[int(w[2])] = None
                stopped_since.add(int(w[2]))
            continue
        if w[0] == "ret":
            if last_op and last_op[0] == "startp" and w[1] == "0":
                watch[int(last_op[1])] = last_op[3]
                orphan.discard(int(last_op[1]))
            continue
        if w[0] == "fsop":
            if w[1] != "0":
                continue
            op, p = last_op[0], last_op[1]
            cls = 2 if op in ("write", "chmod") else 1
            if op == "mkdir" or (op == "rename" and p in dirs):
                dirs.add(p if op == "mkdir" else last_op[2])
            for q in [p] + ([last_op[2]] if op == "rename" else []):
                k = kinds.setdefault(base(q), set())
                # directories carry IN_ISDIR (interpretation (v)); unlink of a watched file also changes its attributes
                k.add(None if (q in dirs or op in ("unlink", "rmdir")) else cls)
            for h in range(NH):
                if watch[h] is None or h in orphan:
                    continue
                if watch[h] == dname(p):
                    owed.append((h, base(p), cls, " ".join(last_op)))
                if watch[h] == p:
                    owed.append((h, base(p), cls, " ".join(last_op)))
                    SELF_OWED[0] += 1
                    if op in ("unlink", "rename"):
                        orphan.add(h)
                if op == "rename" and watch[h] == dname(last_op[2]):
                    owed.append((h, base(last_op[2]), 1, " ".join(last_op)))
            continue
        if w[0] == "cb":
            h = int(w[1][1:])
            if watch[h] is None:
                raise Bad("fsevent-real-callback-after-stop", f"line {ln}: `{l}` delivered to a handle that is not watching")
            got.append((h, w[3][5:], int(w[4][3:])))
            continue
        if w[0] == "loopclose":
            if l != "loopclose 0 open=0":
                raise Bad("fsevent-real-loop-not-closed", f"teardown: {l}")
            continue
        if w[0] == "bad-op":
            raise Bad("fsevent-real-bad-op", f"line {ln}: generator produced an op the harness rejects")
        if w[0] == "addwatch":
            check_mask(int(w[2][5:]), ln)
            continue
        if w[0] in ("misuse", "script"):
            continue
        raise Bad("fsevent-real-unparsed", f"line {ln}: {l}")
    if not lines or not lines[-1].startswith("loopclose"):
        raise Bad("fsevent-real-truncated", "no loopclose line")


def check_real_case(ctx, exe, case, do_model=False):
    d = Path(tempfile.mkdtemp(prefix="scratch-", dir=str(ctx.tmp)))
    try:
        rc, out, err = ctx.run(exe, ["real", str(d)], text="\n".join(case) + "\n", timeout=60)
    finally:
        shutil.rmtree(d, ignore_errors=True)
    try:
        monitor_real(case, rc, out, err)
    except Bad as b:
        return b, out
    return None, out


def shrink(ctx, exe, case, sig, checker):
    """delta-debugging over lines (keeps `end`)"""
    cur = list(case)
    n = 2
    tries = 0
    while len(cur) > 2 and tries < 400:
        chunk = max(1, len(cur) // n)
        progressed = False
        for i in range(0, len(cur) - 1, chunk):
            cand = cur[:i] + cur[i + chunk:]
            if not cand or cand[-1] != "end":
                cand = [x for x in cand if x != "end"] + ["end"]
            tries += 1
            r, _ = checker(ctx, exe, cand, False)
            if isinstance(r, Bad) and r.sig == sig:
                cur = cand
                progressed = True
                break
        if not progressed:
            if chunk == 1:
                break
            n = min(len(cur), n * 2)
    return cur


def model_batch(ctx, dmode, outs):
    """one driver process for a whole batch: `reset` separates the programs"""
    mi = model_input if dmode == "c17poll" else model_input_event
    text = "".join("reset\n" + mi(o) for o in outs)
    parts = ctx.driver([dmode], text).split("=== reset\n")[1:]
    return [p.splitlines() for p in parts]


def run_cases(ctx, exe, cases, label, checker, features, mode, corr_name):
    with ThreadPoolExecutor(NCPU) as ex:
        res = list(ex.map(lambda c: checker(ctx, exe, c, False), cases))
    good = [(c, out) for c, (r, out) in zip(cases, res) if r is None]
    mods = model_batch(ctx, "c17" + mode, [o for _, o in good]) if good else []
    mod_of = {id(c): m for (c, _), m in zip(good, mods)}
    for c, (r, out) in zip(cases, res):
        ctx.count()
        if isinstance(r, Bad):
            if r.sig in ctx.known:
                ctx.violation(r.sig, r.what, {"mode": mode, "ops": c})
                continue
            small = shrink(ctx, exe, c, r.sig, checker)
            ctx.violation(r.sig, f"C17 ({label}): {r.what}", {"mode": mode, "ops": small})
            return False
        impl = [l for l in out.splitlines() if not l.startswith("#")]
        mod = mod_of.get(id(c))
        if mod is None or impl != mod:
            mod = mod or []
            k = next((i for i in range(min(len(impl), len(mod))) if impl[i] != mod[i]), min(len(impl), len(mod)))
            ctx.broken_correspondence(corr_name, f"line {k}: impl `{impl[k] if k < len(impl) else None}` model "
                                                 f"`{mod[k] if k < len(mod) else None}` in program {c}")
            ctx.notes.setdefault("diff_cases", []).append(c)
            return False
        ctx.validated()
        f = features(out)
        for k in f:
            ctx.notes.setdefault("features_" + mode, {}).setdefault(k, 0)
            ctx.notes["features_" + mode][k] += 1
        if f & NONTRIVIAL:
            ctx.nontrivial(mode + hashlib.sha1("\n".join(l for l in out.splitlines() if l[:2] in ("op", "ev", "cb")).encode()).hexdigest()[:12])
    return True


NONTRIVIAL = {"restart-in-flight", "shared-wd", "close-in-flight", "stop-in-callback"}


def gencmp_watchers(ctx):
    """Tie A broken: does the comparator generated from compare_watchers (linux.c) still order the watcher tree?
    Evaluates Generated.compare_watchers on wd pairs from [-1..3] (checks/gencmp.py)."""
    import gencmp
    r = gencmp.grid_check([(w,) for w in range(-1, 4)],
                          lambda a, b: f"match compare_watchers ({a[0]}) ({b[0]}) with | some o => o.ret | none => 99")
    ctx.count()
    if r:
        law, keys, vals = r
        ctx.violation("compare_watchers-order-law",
                      f"C17: compare_watchers as generated from src/unix/linux.c is not a strict total order on watch descriptors "
                      f"({law}) for wd {[k[0] for k in keys]}: {vals}; RB_INSERT/RB_FIND of the watcher tree then lose or "
                      f"duplicate watcher lists (events for a registered wd are dropped)",
                      {"mode": "gencmp", "wds": [k[0] for k in keys]})
    return bool(r)


def run(ctx):
    ctx.trusted += ["harness/c17_sim.c: link-time --wrap observation of uv_fs_stat/uv_timer_init/uv_timer_start/uv_close, "
                    "held uv__statx on the single pool thread, virtual clock_gettime, scripted inotify_add_watch/rm_watch/read",
                    "clang/ASan/LSan/UBSan"]
    ctx.assumptions += ["uv__calloc/uv__malloc/uv__strdup succeed (ENOMEM paths belong to C16)",
                        "no nested uv_run from inside a callback; no API call on a handle after its close_cb",
                        "stat status is 0 or a negative errno"]
    ctx.trusted += ["tools/gen_lean.py (clang AST -> Lean for the loop-free kernels statbuf_eq, fs_poll_rearm, fs_poll_timer_cb, "
                    "inotify_events, fs_event_start_mask, compare_watchers) and UvModel/CSem.lean"]
    # Tie A: the kernels above regenerated from /repo, GenEq/C17 re-proves them = FsPoll.statbufEq / finishPoll / timerFire, FsEvent.eventsOf / WATCH_MASK / cmpWd (+ order laws)
    gen_ok = ctx.gen_lean(need=["C17"])
    ok = ctx.require_lean(["UvModel.GenEq.C17", "UvModel.Props.C17"]) and gen_ok
    exe = ctx.harness("c17_sim", ["harness/c17_sim.c"], link_lib=True, extra=WRAP)
    if exe is None:
        return
    if ctx.replay:
        rp = json.loads(Path(ctx.replay).read_text())["replay"]
        if rp["mode"] == "gencmp":
            gencmp_watchers(ctx)
        elif rp["mode"] == "poll":
            run_cases(ctx, exe, [rp["ops"]], "replay", check_poll_case, poll_features, "poll", "FsPoll model vs src/fs-poll.c")
        elif rp["mode"] == "event":
            run_cases(ctx, exe, [rp["ops"]], "replay", check_event_case, event_features, "event",
                      "FsEvent model vs inotify part of src/unix/linux.c")
        else:
            r, _ = check_real_case(ctx, exe, rp["ops"])
            ctx.count()
            if isinstance(r, Bad):
                ctx.violation(r.sig, f"C17 (replay): {r.what}", {"mode": "real", "ops": rp["ops"]})
        return
    rng = ctx.rng
    cdir = VERIF / "corpus" / "C17"
    if cdir.exists():
        pc = [[l for l in p.read_text().splitlines() if l.strip()] for p in sorted(cdir.glob("poll-*.txt"))]
        if pc:
            run_cases(ctx, exe, pc, "corpus", check_poll_case, poll_features, "poll", "FsPoll model vs src/fs-poll.c")
    POLL = ("random", check_poll_case, poll_features, "poll", "FsPoll model vs src/fs-poll.c")
    EVENT = ("random", check_event_case, event_features, "event", "FsEvent model vs inotify part of src/unix/linux.c")
    if cdir.exists():
        ec = [[l for l in p.read_text().splitlines() if l.strip()] for p in sorted(cdir.glob("event-*.txt"))]
        if ec:
            run_cases(ctx, exe, ec, "corpus", *EVENT[1:])

    def healthy():
        return not ctx.violations and not any(k == "correspondence" for k, _, _ in ctx.broken)

    total = ctx.scale(500, 12000)
    done = 0
    while done < total and healthy():
        cases = [gen_poll_case(rng, rng.range(4, ctx.scale(25, 60)), "restart" if rng.chance(1, 3) else None)
                 for _ in range(min(250, total - done))]
        if done == 0:
            ctx.sample({"fs_poll program": cases[0]})
        run_cases(ctx, exe, cases, *POLL)
        done += len(cases)
    total = ctx.scale(500, 12000)
    done = 0
    while done < total and healthy():
        cases = [gen_event_case(rng, rng.range(4, ctx.scale(25, 50)), "shared" if rng.chance(1, 3) else None)
                 for _ in range(min(250, total - done))]
        if done == 0:
            ctx.sample({"fs_event scripted program": cases[0]})
        run_cases(ctx, exe, cases, *EVENT)
        done += len(cases)
    # real kernel: monitors only (which records the kernel produces is not modelled)
    total = ctx.scale(150, 3000)
    done = 0
    ncbs = 0
    while done < total and healthy():
        cases = [gen_real_case(rng, rng.range(6, ctx.scale(25, 50))) for _ in range(min(150, total - done))]
        if done == 0:
            ctx.sample({"fs_event real-kernel program": cases[0]})
        with ThreadPoolExecutor(NCPU) as ex:
            res = list(ex.map(lambda c: check_real_case(ctx, exe, c), cases))
        for c, (r, out) in zip(cases, res):
            ctx.count()
            ncbs += out.count("\ncb ")
            if isinstance(r, Bad):
                small = c if r.sig in ctx.known else shrink(ctx, exe, c, r.sig, check_real_case)
                ctx.violation(r.sig, f"C17 (real kernel): {r.what}", {"mode": "real", "ops": small})
                break
        done += len(cases)
    ctx.notes["real_kernel"] = (f"{done} programs on a scratch directory, {ncbs} callbacks checked by the monitor, "
                                f"{SELF_OWED[0]} owed reports for changes of the watched path itself (chmod/rename/unlink/move-out)")
    if not ok and not ctx.violations:
        gencmp_watchers(ctx)      # Tie A: evaluate the generated tree comparator on a grid
    if ctx.broken and not ctx.violations:
        ctx.log("obligation broken; searching for a failing input with the monitors")
        srng = SplitMix(ctx.seed + 1717)
        n = 0
        for rnd in range(ctx.scale(40, 150)):
            if rnd % 2 == 0:
                cases = [gen_poll_case(srng, srng.range(4, 60), "restart" if rnd % 4 else None) for _ in range(250)]
                chk, md = check_poll_case, "poll"
            else:
                cases = [gen_event_case(srng, srng.range(4, 50), "shared" if rnd % 4 == 1 else None) for _ in range(250)]
                chk, md = check_event_case, "event"
            with ThreadPoolExecutor(NCPU) as ex:
                res = list(ex.map(lambda c: chk(ctx, exe, c, False), cases))
            n += len(cases)
            for c, (r, _) in zip(cases, res):
                if isinstance(r, Bad) and r.sig not in ctx.known:
                    ctx.violation(r.sig, f"C17 (search): {r.what}", {"mode": md, "ops": shrink(ctx, exe, c, r.sig, chk)})
                    break
            if ctx.violations:
                break
        ctx.notes["search"] = f"{n} extra programs run against the monitors after an obligation broke"
    ctx.cov["rule"] = ("fs_poll: random programs (start/stop/close/getpath/advance/release(result)/run x callback scripts), stat results "
                       "scripted one field at a time; non-trivial = restart or close while a stat is in flight; distinct by op/event/callback "
                       "sequence. fs_event scripted: random programs (start/stop/close on 3 wds x aliases, dispatch of 1-4 scripted "
                       "records per call incl. stale wds and several read buffers, callback scripts); non-trivial = >=2 handles on the "
                       "dispatched wd or a stop/close from inside a callback. fs_event real kernel: file/dir ops on a scratch tree with "
                       "overlapping watches, monitors only.")
